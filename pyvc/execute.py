"""pyvc.execute -- path-by-path symbolic execution of real FunctionDef ASTs.

The executor never sees a hand-written copy of a function: it walks the `ast`
node produced from the repository file.  Calls are modular (contracts only);
a call without a contract is `Unsupported`, never a silent havoc.  Loops need a
sidecar invariant.  Exceptions are path outcomes, judged by the contract at the
function exit.
"""
import ast
import z3
from . import values as V
from . import logic
from .values import (Value, VNone, NONE, VBool, Num, VObj, VStr, VTuple, VOpt, VOpaque, VFunc, SList,
                     Unsupported, VDyn)
from .state import State


class Exc(Value):
    """an exception propagating (value position)."""

    def __init__(self, etype, lineno=0, note=""):
        self.etype = etype
        self.lineno = lineno
        self.note = note

    def __repr__(self):
        return "Exc(%s@%s)" % (self.etype, self.lineno)


class VTimeout(Value):
    """the event returned by env.timeout(delay)"""

    def __init__(self, delay):
        self.delay = delay


class VTypeVal(Value):
    """a type object: either a named builtin type or type(<value>)"""

    def __init__(self, name=None, of=None):
        self.name, self.of = name, of


class VDict(Value):
    """dict literal with constant string keys (used to initialise record fields such as self.stats)"""

    def __init__(self, items):
        self.items = items      # {key: Value}


class VAnyOf(Value):
    """env.any_of([...]) condition event"""

    def __init__(self, members):
        self.members = members


class VPyList(Value):
    """a list literal with heterogeneous members (only used to build any_of arguments)"""

    def __init__(self, items):
        self.items = list(items)


class VGen(Value):
    """a generator object created by calling a generator method (not started)"""

    def __init__(self, name, args):
        self.name = name
        self.args = args


class FieldRef(Value):
    """reference to a list-valued field of self (lists are mutable objects; aliases must see mutations)."""

    def __init__(self, name):
        self.name = name


class SelfRef(Value):
    pass


class EnvRef(Value):
    pass


class RecRef(Value):
    """self.<dict field> with constant string keys: prefix path into State.f"""

    def __init__(self, prefix):
        self.prefix = prefix


class Outcome:
    def __init__(self, kind, state, value=None):
        self.kind = kind      # 'next' 'return' 'break' 'continue' 'raise'
        self.state = state
        self.value = value


class Obligation:
    def __init__(self, name, state, goals, kind, lineno=0, props=()):
        self.name = name
        self.pc = list(state.pc)
        self.hyps = list(state.hyps)
        self.goals = goals     # list of clauses (all must hold)
        self.kind = kind
        self.lineno = lineno
        self.props = tuple(props)
        self.trace = list(state.trace)
        self.state = state
        self.ctx = None


EXC_PARENTS = {
    "IndexError": ["LookupError", "Exception"],
    "KeyError": ["LookupError", "Exception"],
    "ValueError": ["Exception"],
    "RuntimeError": ["Exception"],
    "TypeError": ["Exception"],
    "AttributeError": ["Exception"],
    "AssertionError": ["Exception"],
    "ZeroDivisionError": ["ArithmeticError", "Exception"],
    "UnboundLocalError": ["NameError", "Exception"],
    "StopIteration": ["Exception"],
    "Interrupt": ["Exception"],
}


def exc_matches(etype, handler_names):
    if handler_names is None:
        return True
    for h in handler_names:
        if h == etype or h in EXC_PARENTS.get(etype, ["Exception"]) or h == "BaseException":
            return True
    return False


class Ctx:
    """per-function verification context."""

    def __init__(self, cls, fname, contracts, loop_invs=None, yields=None, module=None):
        self.cls = cls
        self.fname = fname
        self.contracts = contracts     # object with .lookup_self(name), .lookup_obj(kind,name), .lookup_super(cls)
        self.loop_invs = loop_invs or {}
        self.yields = yields
        self.module = module
        self.obligs = []
        self.loop_ord = 0
        self.loop_cuts = {}
        self.loop_index = {}
        self.yield_ord = 0
        self.solver_checks = 0
        self.notes = []

    def oblige(self, name, state, goals, kind, lineno=0, props=()):
        goals = [g for g in goals]
        ob = Obligation(name, state, goals, kind, lineno, props)
        ob.ctx = self
        self.obligs.append(ob)


# ---------------------------------------------------------------------------


def feasible(st, ctx, timeout_ms=3000):
    ctx.solver_checks += 1
    r = logic.solve(st.pc, [], timeout_ms=timeout_ms, want_model=False, mode="qf")
    return r.status != "proved"


class EffectFreeLoop:
    """for-loop of a function whose contract lets it modify no modelled field (`modifies` names only fields outside the
    schema, e.g. the bookkeeping dictionaries): the invariant is derived mechanically from that frame -- at the loop head
    every modelled field and every heap attribute is what it was when the loop was entered -- and then proved like a
    hand-written one (preserve obligation after an arbitrary iteration).  A body that writes a modelled field fails
    `loopN.preserve.frame.*`: the same defect the function's own frame obligation states.  The iterable may lie outside
    the model (an opaque dictionary view): then the number of iterations is arbitrary and the element is opaque."""
    variant = None
    props = ()

    def __init__(self, props):
        self.props = tuple(props)

    @staticmethod
    def applies(ex, st):
        con = getattr(ex.ctx, "con", None)
        if con is None:
            return False
        return not any(m in st.f and not isinstance(st.f[m], VOpaque) for m in con.modifies)

    def havoc(self, ex, st, node, ordinal):
        idxname = "__i%d" % ordinal
        if idxname in st.loc:
            nm = "efl%s.i" % logic.fresh("n").decl().name().split("!")[1]
            st.loc[idxname] = Num(z3.Int(nm))
            logic.REG.index_consts.add(nm)
        for n in _stored_names(node):
            st.loc[n] = None

    def inv(self, ex, entry, st, mode):
        from .contract import unchanged_clauses
        out = [("frame." + nm, cl) for nm, cl in unchanged_clauses(ex.ctx.lib if hasattr(ex.ctx, "lib") else None,
                                                                  ex.ctx.cls, entry, st)]
        for k, v in st.loc.items():
            if k.startswith("__i") and isinstance(v, Num):
                out.append(("index-nonneg", v.t >= 0))
        return out


class AutoScanLoop:
    """`while i < len(L) and <test on L[i]>: i += 1` with nothing else in the body: the invariant is derived
    mechanically -- 0 <= i <= len(L), and the test held at every position before i -- and then proved like a
    hand-written one (init / preserve obligations).  Its clauses are auxiliary: if one of them cannot be proved the
    unit is undecided, never a violation (names start with `auto.`)."""
    variant = None
    props = ()

    def __init__(self, idx, lst_expr, test):
        self.idx, self.lst_expr, self.test = idx, lst_expr, test

    @staticmethod
    def match(node):
        t = node.test
        if not (isinstance(t, ast.BoolOp) and isinstance(t.op, ast.And) and len(t.values) == 2):
            return None
        c, test = t.values
        if not (isinstance(c, ast.Compare) and len(c.ops) == 1 and isinstance(c.ops[0], ast.Lt) and isinstance(c.left, ast.Name)
                and isinstance(c.comparators[0], ast.Call) and isinstance(c.comparators[0].func, ast.Name)
                and c.comparators[0].func.id == "len" and len(c.comparators[0].args) == 1):
            return None
        idx = c.left.id
        if not (len(node.body) == 1 and isinstance(node.body[0], ast.AugAssign) and isinstance(node.body[0].op, ast.Add)
                and isinstance(node.body[0].target, ast.Name) and node.body[0].target.id == idx
                and isinstance(node.body[0].value, ast.Constant) and node.body[0].value.value == 1):
            return None
        for n in ast.walk(test):
            if isinstance(n, (ast.Call, ast.Yield, ast.YieldFrom, ast.NamedExpr)):
                return None
        return AutoScanLoop(idx, c.comparators[0].args[0], test)

    def havoc(self, ex, st, node, ordinal):
        nm = "scan%s.%s" % (logic.fresh("n").decl().name().split("!")[1], self.idx)
        st.loc[self.idx] = Num(z3.Int(nm))
        logic.REG.index_consts.add(nm)

    def inv(self, ex, entry, st, mode):
        i = st.loc[self.idx]
        if not isinstance(i, Num):
            raise Unsupported("scan index %s is not a number" % self.idx)
        rs = ex.eval(self.lst_expr, st)
        if len(rs) != 1 or isinstance(rs[0][0], Exc):
            raise Unsupported("scanned list expression")
        lst = ex.deref(rs[0][0], rs[0][1])
        if not isinstance(lst, SList):
            raise Unsupported("scan over %r" % (lst,))

        def held(j):
            s = st.fork()
            s.loc[self.idx] = Num(j)
            s.pc.append(z3.And(0 <= j, j < lst.len))
            rs = [(v, s2) for v, s2 in ex.eval(self.test, s) if not isinstance(v, Exc)]
            if not rs:
                return z3.BoolVal(True)      # this instance lies outside the list: nothing to state
            if len(rs) != 1:
                raise Unsupported("scan test is not a total, non-branching expression")
            return z3.Implies(z3.And(0 <= j, j < i.t), V.truth(ex.deref(rs[0][0], rs[0][1])))
        return [("auto.index-range", z3.And(0 <= i.t, i.t <= lst.len)),
                ("auto.test-held-at-every-scanned-position", logic.Forall(1, held, [lst.len], "auto-scan"))]


def _same_dict(a, b):
    return a.keys() == b.keys() and all(a[k] is b[k] or (isinstance(a[k], z3.ExprRef) and isinstance(b[k], z3.ExprRef)
                                                           and a[k].eq(b[k])) for k in a)


def _merge_twins(outs, st):
    """an if-statement whose two branches leave exactly the same state (e.g. a test on bookkeeping outside the model
    followed by a statement without modelled effect) continues as one path: the branch condition is forgotten"""
    nxt = [o for o in outs if o.kind == "next"]
    if len(nxt) != 2 or len(outs) != 2:
        return outs
    a, b = nxt[0].state, nxt[1].state
    n = len(st.pc)
    if not (len(a.pc) == n + 1 and len(b.pc) == n + 1 and len(a.hyps) == len(b.hyps) == len(st.hyps)):
        return outs
    ca, cb = a.pc[-1], b.pc[-1]
    if not (z3.is_not(ca) and ca.arg(0).eq(cb) or z3.is_not(cb) and cb.arg(0).eq(ca)):
        return outs
    if not (_same_dict(a.f, b.f) and _same_dict(a.h, b.h) and _same_dict(a.loc, b.loc)):
        return outs
    if not (a.next_id is b.next_id or a.next_id.eq(b.next_id)) or not (a.now is b.now or a.now.eq(b.now)):
        return outs
    if any(a.ghost.get(k) is not b.ghost.get(k) and a.ghost.get(k) != b.ghost.get(k) for k in set(a.ghost) | set(b.ghost)):
        return outs
    m = a.fork()
    m.pc = list(a.pc[:n])
    m.trace = list(a.trace[:-1]) if a.trace else []
    return [Outcome("next", m)]


def _stored_names(node):
    return {n.id for n in ast.walk(node) if isinstance(n, ast.Name) and isinstance(n.ctx, ast.Store)}


def _inv_props(spec, item):
    """a loop-invariant clause may carry its own property tags (third component) next to the loop-wide ones"""
    if len(item) > 2 and item[2]:
        return tuple(sorted(set(spec.props) | set(item[2])))
    return spec.props


class Exec:
    def __init__(self, ctx):
        self.ctx = ctx

    # ------------------------------------------------------------- helpers
    def deref(self, v, st):
        if isinstance(v, FieldRef):
            return st.f[v.name]
        return v

    def branch(self, st, cond, lineno=0):
        """fork on z3 Bool cond -> [(True, st1), (False, st2)] with infeasible sides pruned."""
        cond = z3.simplify(cond)
        if z3.is_true(cond):
            return [(True, st)]
        if z3.is_false(cond):
            return [(False, st)]
        out = []
        s1 = st.fork().assume(cond)
        s1.trace.append("L%d:T" % lineno)
        if feasible(s1, self.ctx):
            out.append((True, s1))
        s2 = st.fork().assume(z3.Not(cond))
        s2.trace.append("L%d:F" % lineno)
        if feasible(s2, self.ctx):
            out.append((False, s2))
        return out

    def raise_if(self, st, cond, etype, lineno, note=""):
        """returns (list_of_exc_outcomes, st_ok or None)"""
        outs = []
        ok = None
        for b, s in self.branch(st, cond, lineno):
            if b:
                outs.append((Exc(etype, lineno, note), s))
            else:
                ok = s
        return outs, ok

    # ------------------------------------------------------------- expressions
    def eval(self, node, st):
        """-> list of (Value | Exc, State)"""
        m = getattr(self, "e_" + type(node).__name__, None)
        if m is None:
            raise Unsupported("expression %s at line %s" % (type(node).__name__, getattr(node, "lineno", "?")))
        return m(node, st)

    def eval_seq(self, nodes, st):
        """evaluate nodes left to right -> list of (list_of_values | Exc, st)"""
        results = [([], st)]
        for n in nodes:
            nxt = []
            for vals, s in results:
                if isinstance(vals, Exc):
                    nxt.append((vals, s))
                    continue
                for v, s2 in self.eval(n, s):
                    if isinstance(v, Exc):
                        nxt.append((v, s2))
                    else:
                        nxt.append((vals + [v], s2))
            results = nxt
        return results

    def e_Constant(self, node, st):
        c = node.value
        if c is None:
            return [(NONE, st)]
        if isinstance(c, bool):
            return [(VBool(c), st)]
        if isinstance(c, int):
            return [(Num(z3.IntVal(c)), st)]
        if isinstance(c, float):
            return [(Num(z3.RealVal(repr(c))), st)]
        if isinstance(c, str):
            return [(VStr(c), st)]
        raise Unsupported("constant %r" % (c,))

    def e_JoinedStr(self, node, st):
        # f-string: only ever used as exception message / log text -> opaque string
        return [(VOpaque("fstring"), st)]

    def e_Name(self, node, st):
        n = node.id
        if n == "self":
            return [(SelfRef(), st)]
        if n in st.loc:
            v = st.loc[n]
            if v is None:
                return [(Exc("UnboundLocalError", node.lineno, n), st)]
            if isinstance(v, tuple) and v and v[0] == "maybe_unbound":
                # (tag, z3 Bool bound?, value)
                outs, ok = self.raise_if(st, z3.Not(v[1]), "UnboundLocalError", node.lineno, n)
                if ok is not None:
                    outs.append((v[2], ok))
                return outs
            return [(v, st)]
        if n in ("True", "False"):
            return [(VBool(n == "True"), st)]
        if n in ("int", "float", "str", "bool") and n not in self.ctx.local_names:
            return [(VTypeVal(name=n), st)]
        if n in self.ctx.contracts.globals:
            return [(self.ctx.contracts.globals[n], st)]
        if n in self.ctx.local_names:
            return [(Exc("UnboundLocalError", node.lineno, n), st)]
        raise Unsupported("name %r at line %d" % (n, node.lineno))

    def e_Attribute(self, node, st):
        outs = []
        for base, s in self.eval(node.value, st):
            if isinstance(base, Exc):
                outs.append((base, s))
                continue
            outs.extend(self.get_attr(base, node.attr, s, node.lineno))
        return outs

    def get_attr(self, base, attr, st, lineno):
        if isinstance(base, SelfRef):
            if attr == "env":
                return [(EnvRef(), st)]
            hook = self.ctx.contracts.self_attr(self.ctx, attr, st)
            if hook is not None:
                return [(hook, st)]
            if attr in st.f:
                v = st.f[attr]
                if isinstance(v, SList):
                    return [(FieldRef(attr), st)]
                return [(v, st)]
            if any(k.startswith(attr + ".") for k in st.f):
                return [(RecRef(attr), st)]
            if self.ctx.contracts.is_method(self.ctx.cls, attr):
                return [(VFunc("self." + attr), st)]
            if self.ctx.fname == "__init__" or attr in self.ctx.contracts.optional_fields(self.ctx.cls):
                return [(Exc("AttributeError", lineno, attr), st)]
            raise Unsupported("self.%s is not in the state schema of %s (line %d)" % (attr, self.ctx.cls, lineno))
        if isinstance(base, EnvRef):
            if attr == "now":
                return [(Num(st.now), st)]
            if attr == "active_process":
                return [(VObj(st.active, "proc"), st)]
            raise Unsupported("env.%s" % attr)
        if isinstance(base, VObj):
            return self.ctx.contracts.obj_attr(self, base, attr, st, lineno)
        if isinstance(base, VOpt):
            outs, ok = self.raise_if(st, base.isnone, "AttributeError", lineno, "None.%s" % attr)
            if ok is not None:
                outs.extend(self.get_attr(base.val, attr, ok, lineno))
            return outs
        if isinstance(base, VNone):
            return [(Exc("AttributeError", lineno, "None.%s" % attr), st)]
        if isinstance(base, VOpaque):
            return [(VOpaque(base.tag + "." + attr), st)]
        if isinstance(base, RecRef):
            raise Unsupported("attribute %s of dict field" % attr)
        r = self.ctx.contracts.get_attr_other(self, base, attr, st, lineno)
        if r is not None:
            return r
        raise Unsupported("attribute %s of %r (line %d)" % (attr, base, lineno))

    def e_Subscript(self, node, st):
        outs = []
        if isinstance(node.slice, ast.Slice):
            return self.eval_slice(node, st)
        for vals, s in self.eval_seq([node.value, node.slice], st):
            if isinstance(vals, Exc):
                outs.append((vals, s))
                continue
            base, idx = vals
            outs.extend(self.subscript(base, idx, s, node.lineno))
        return outs

    def norm_index(self, lst, idx):
        i = idx.t
        return z3.If(i < 0, i + lst.len, i)

    def subscript(self, base, idx, st, lineno):
        if isinstance(base, RecRef) and isinstance(idx, VStr) and not z3.is_int_value(z3.simplify(idx.t)):
            keys = self.rec_keys(base, st)
            if not keys:
                raise Unsupported("dict field %s has no scalar keys (line %d)" % (base.prefix, lineno))
            known = z3.Or(*[idx.t == V.str_const(k) for k in keys])
            outs, ok = self.raise_if(st, z3.Not(known), "KeyError", lineno, base.prefix)
            if ok is not None:
                r = ok.f[base.prefix + "." + keys[-1]]
                for k in reversed(keys[:-1]):
                    r = V.ite(idx.t == V.str_const(k), ok.f[base.prefix + "." + k], r)
                outs.append((r, ok))
            return outs
        if isinstance(base, RecRef):
            if not isinstance(idx, VStr) or not z3.is_int_value(z3.simplify(idx.t)):
                raise Unsupported("dict field with non-constant key (line %d)" % lineno)
            key = base.prefix + "." + V.str_of_code(z3.simplify(idx.t).as_long())
            if key in st.f:
                v = st.f[key]
                if isinstance(v, SList):
                    return [(FieldRef(key), st)]
                return [(v, st)]
            if any(k.startswith(key + ".") for k in st.f):
                return [(RecRef(key), st)]
            return [(Exc("KeyError", lineno, key), st)]
        base = self.deref(base, st)
        if isinstance(base, SList):
            if isinstance(idx, VDyn):
                outs, ok = self.raise_if(st, z3.Not(z3.Or(idx.tag == V.T_INT, idx.tag == V.T_BOOL)), "TypeError", lineno,
                                         "list index is not an integer")
                if ok is not None:
                    outs.extend(self.subscript(base, Num(z3.ToInt(idx.num)), ok, lineno))
                return outs
            if not isinstance(idx, Num):
                raise Unsupported("list index %r" % (idx,))
            if not idx.is_int:
                return [(Exc("TypeError", lineno, "list index is a float"), st)]
            i = self.norm_index(base, idx)
            outs, ok = self.raise_if(st, z3.Or(i < 0, i >= base.len), "IndexError", lineno)
            if ok is not None:
                outs.append((base.at(i), ok))
            return outs
        if isinstance(base, VTuple):
            if isinstance(idx, Num) and z3.is_int_value(z3.simplify(idx.t)):
                k = z3.simplify(idx.t).as_long()
                if -len(base.items) <= k < len(base.items):
                    return [(base.items[k], st)]
                return [(Exc("IndexError", lineno), st)]
            raise Unsupported("tuple index %r" % (idx,))
        if isinstance(base, VDict) and isinstance(idx, VStr):
            outs = []
            rest = st
            for k, v in base.items.items():
                if rest is None:
                    break
                hit = None
                nxt = None
                for b, s in self.branch(rest, idx.t == V.str_const(k), lineno):
                    if b:
                        hit = s
                    else:
                        nxt = s
                if hit is not None:
                    outs.append((v, hit))
                rest = nxt
            if rest is not None:
                outs.append((Exc("KeyError", lineno), rest))
            return outs
        if isinstance(base, VOpaque):
            return [(VOpaque(base.tag + "[]"), st)]
        if isinstance(base, VNone):
            return [(Exc("TypeError", lineno, "None[]"), st)]
        if isinstance(base, VOpt):
            outs, ok = self.raise_if(st, base.isnone, "TypeError", lineno, "None[]")
            if ok is not None:
                outs.extend(self.subscript(base.val, idx, ok, lineno))
            return outs
        r = self.ctx.contracts.subscript(self, base, idx, st, lineno)
        if r is not None:
            return r
        raise Unsupported("subscript of %r (line %d)" % (base, lineno))

    def rec_keys(self, base, st):
        pre = base.prefix + "."
        return sorted(k[len(pre):] for k in st.f if k.startswith(pre) and "." not in k[len(pre):])

    def eval_slice(self, node, st):
        sl = node.slice
        if sl.step is not None:
            raise Unsupported("slice step")
        parts = [node.value] + [p for p in (sl.lower, sl.upper) if p is not None]
        outs = []
        for vals, s in self.eval_seq(parts, st):
            if isinstance(vals, Exc):
                outs.append((vals, s))
                continue
            base = self.deref(vals[0], s)
            if isinstance(base, VOpt) and isinstance(base.val, SList):
                exs, ok = self.raise_if(s, base.isnone, "TypeError", node.lineno, "slice of None")
                outs.extend(exs)
                if ok is None:
                    continue
                s = ok
                base = base.val
            if not isinstance(base, SList):
                raise Unsupported("slice of %r" % (base,))
            k = 1
            lo = hi = None
            if sl.lower is not None:
                lo = vals[k]
                k += 1
            if sl.upper is not None:
                hi = vals[k]

            def clamp(v):
                i = v.t
                i = z3.If(i < 0, i + base.len, i)
                return z3.If(i < 0, 0, z3.If(i > base.len, base.len, i))
            res = base
            if hi is not None:
                h = clamp(hi)
                if lo is not None:
                    l = clamp(lo)
                    h = z3.If(h < l, l, h)
                res = V.list_slice_to(res, h)
            if lo is not None:
                l = clamp(lo)
                res = V.SList(z3.If(res.len - l < 0, 0, res.len - l), (lambda at, l: (lambda i: at(i + l)))(res.at, l),
                              res.ekind)
            outs.append((res, s))
        return outs

    def e_Tuple(self, node, st):
        outs = []
        for vals, s in self.eval_seq(node.elts, st):
            outs.append((vals if isinstance(vals, Exc) else VTuple(vals), s))
        return outs

    def e_List(self, node, st):
        outs = []
        for vals, s in self.eval_seq(node.elts, st):
            if isinstance(vals, Exc):
                outs.append((vals, s))
                continue
            if not vals:
                outs.append((V.SList(z3.IntVal(0), lambda i: VOpaque("empty"), ("any",)), s))
                continue
            vs = list(vals)
            if any(isinstance(v, (VTimeout, VAnyOf, VGen)) for v in vs) or len(set(type(v) for v in vs)) > 1:
                outs.append((VPyList(vs), s))
                continue
            ek = self.kind_of_value(vs[0])

            def at(i, vs=vs):
                r = vs[-1]
                for k in range(len(vs) - 2, -1, -1):
                    r = V.ite(i == k, vs[k], r)
                return r
            outs.append((V.SList(z3.IntVal(len(vs)), at, ek), s))
        return outs

    def kind_of_value(self, v):
        if isinstance(v, VObj):
            return ("obj", v.kind)
        if isinstance(v, Num):
            return ("num", "int" if v.is_int else "real")
        if isinstance(v, VStr):
            return ("str",)
        if isinstance(v, VBool):
            return ("bool",)
        if isinstance(v, VTuple):
            return ("tuple", [self.kind_of_value(x) for x in v.items])
        return ("any",)

    def e_Dict(self, node, st):
        # dict literals with constant string keys are records; anything else is only bookkeeping -> opaque
        outs = []
        const_keys = all(isinstance(k, ast.Constant) and isinstance(k.value, str) for k in node.keys)
        for vals, s in self.eval_seq([v for v in node.values], st):
            if isinstance(vals, Exc):
                outs.append((vals, s))
            elif const_keys:
                outs.append((VDict({k.value: v for k, v in zip(node.keys, vals)}), s))
            else:
                outs.append((VOpaque("dict"), s))
        return outs

    def e_Lambda(self, node, st):
        return [(VFunc("<lambda>", node), st)]

    def e_IfExp(self, node, st):
        # pure, total operands: a conditional value without forking
        try:
            vals = []
            for sub in (node.test, node.body, node.orelse):
                npc, nh = len(st.pc), len(st.hyps)
                rs = self.eval(sub, st.fork())
                if len(rs) != 1 or isinstance(rs[0][0], Exc) or len(rs[0][1].pc) != npc or len(rs[0][1].hyps) != nh:
                    vals = None
                    break
                vals.append(self.deref(rs[0][0], st))
            if vals is not None:
                return [(V.ite(V.truth(vals[0]), vals[1], vals[2]), st)]
        except Unsupported:
            pass
        outs = []
        for c, s in self.eval(node.test, st):
            if isinstance(c, Exc):
                outs.append((c, s))
                continue
            for b, s2 in self.branch(s, V.truth(c), node.lineno):
                outs.extend(self.eval(node.body if b else node.orelse, s2))
        return outs

    def e_UnaryOp(self, node, st):
        outs = []
        for v, s in self.eval(node.operand, st):
            if isinstance(v, Exc):
                outs.append((v, s))
            elif isinstance(node.op, ast.Not):
                outs.append((VBool(z3.Not(V.truth(self.deref(v, s)))), s))
            elif isinstance(node.op, ast.USub):
                outs.append((V.num_neg(v), s))
            elif isinstance(node.op, ast.UAdd):
                outs.append((V.as_num(v), s))
            else:
                raise Unsupported("unary op")
        return outs

    def e_BoolOp(self, node, st):
        # short-circuit, value semantics restricted to truthiness when operands are not plain bools
        is_and = isinstance(node.op, ast.And)
        # pure, total, boolean operands: no need to fork (short-circuiting is unobservable)
        try:
            vals = []
            for sub in node.values:
                npc, nh = len(st.pc), len(st.hyps)
                rs = self.eval(sub, st.fork())
                if len(rs) != 1 or isinstance(rs[0][0], Exc) or len(rs[0][1].pc) != npc or len(rs[0][1].hyps) != nh:
                    vals = None
                    break
                v = self.deref(rs[0][0], st)
                if not isinstance(v, VBool):
                    vals = None
                    break
                vals.append(v.t)
            if vals is not None:
                return [(VBool(z3.And(*vals) if is_and else z3.Or(*vals)), st)]
        except Unsupported:
            pass

        def go(k, s):
            outs = []
            for v, s1 in self.eval(node.values[k], s):
                if isinstance(v, Exc):
                    outs.append((v, s1))
                    continue
                v = self.deref(v, s1)
                if k == len(node.values) - 1:
                    outs.append((v, s1))
                    continue
                t = V.truth(v)
                for b, s2 in self.branch(s1, t, node.lineno):
                    if b == is_and:
                        outs.extend(go(k + 1, s2))
                    else:
                        outs.append((v if not isinstance(v, VBool) else VBool(b), s2))
            return outs
        return go(0, st)

    def e_BinOp(self, node, st):
        outs = []
        for vals, s in self.eval_seq([node.left, node.right], st):
            if isinstance(vals, Exc):
                outs.append((vals, s))
                continue
            outs.extend(self.binop(node.op, vals[0], vals[1], s, node.lineno))
        return outs

    def binop(self, op, a, b, st, lineno):
        a, b = self.deref(a, st), self.deref(b, st)
        for x in (a, b):
            if isinstance(x, VNone):
                return [(Exc("TypeError", lineno, "None arithmetic"), st)]
        for k, x in enumerate((a, b)):
            if isinstance(x, VOpt):
                outs, ok = self.raise_if(st, x.isnone, "TypeError", lineno, "None arithmetic")
                if ok is not None:
                    aa, bb = (x.val, b) if k == 0 else (a, x.val)
                    outs.extend(self.binop(op, aa, bb, ok, lineno))
                return outs
        for k, x in enumerate((a, b)):
            if isinstance(x, VDyn):
                outs, ok = self.raise_if(st, z3.Not(x.is_num()), "TypeError", lineno, "arithmetic on a non-number")
                if ok is not None:
                    xn = self.dyn_num(x, ok)
                    aa, bb = (xn, b) if k == 0 else (a, xn)
                    outs.extend(self.binop(op, aa, bb, ok, lineno))
                return outs
        if isinstance(a, VOpaque) or isinstance(b, VOpaque):
            return [(VOpaque("binop"), st)]
        if isinstance(a, SList) and isinstance(b, SList) and isinstance(op, ast.Add):
            return [(V.list_concat(a, b), st)]
        if isinstance(op, ast.Add):
            return [(V.num_add(a, b), st)]
        if isinstance(op, ast.Sub):
            return [(V.num_sub(a, b), st)]
        if isinstance(op, ast.Mult):
            return [(V.num_mul(a, b), st)]
        if isinstance(op, ast.Div):
            bn = V.as_num(b)
            outs, ok = self.raise_if(st, bn.t == 0, "ZeroDivisionError", lineno)
            if ok is not None:
                outs.append((V.num_truediv(a, b), ok))
            return outs
        if isinstance(op, ast.Mod):
            an, bn = V.as_num(a), V.as_num(b)
            if not (an.is_int and bn.is_int):
                raise Unsupported("float modulo")
            outs, ok = self.raise_if(st, bn.t == 0, "ZeroDivisionError", lineno)
            if ok is not None:
                # Python modulo has the sign of the divisor; z3 mod is the Euclidean one (equal for b > 0)
                r = z3.If(bn.t > 0, an.t % bn.t, -((-an.t) % (-bn.t)))
                outs.append((Num(r), ok))
            return outs
        if isinstance(op, ast.FloorDiv):
            an, bn = V.as_num(a), V.as_num(b)
            if not (an.is_int and bn.is_int):
                raise Unsupported("float floor division")
            outs, ok = self.raise_if(st, bn.t == 0, "ZeroDivisionError", lineno)
            if ok is not None:
                q = z3.If(bn.t > 0, an.t / bn.t, (-an.t) / (-bn.t))
                outs.append((Num(q), ok))
            return outs
        raise Unsupported("binary operator %s" % type(op).__name__)

    def e_Compare(self, node, st):
        operands = [node.left] + list(node.comparators)

        def go(k, leftv, s, acc):
            # evaluate comparison k between leftv and operands[k+1]
            outs = []
            for rv, s1 in self.eval(operands[k + 1], s):
                if isinstance(rv, Exc):
                    outs.append((rv, s1))
                    continue
                for c, s2 in self.compare(node.ops[k], leftv, rv, s1, node.lineno):
                    if isinstance(c, Exc):
                        outs.append((c, s2))
                        continue
                    acc2 = c if acc is None else z3.And(acc, c)
                    if k == len(node.ops) - 1:
                        outs.append((VBool(acc2), s2))
                    else:
                        # chained comparison short-circuits; operands here are side-effect free
                        outs.extend(go(k + 1, rv, s2, acc2))
            return outs
        outs = []
        for lv, s in self.eval(node.left, st):
            if isinstance(lv, Exc):
                outs.append((lv, s))
            else:
                outs.extend(go(0, lv, s, None))
        return outs

    def compare(self, op, a, b, st, lineno):
        """-> list of (z3 Bool | Exc, state)"""
        if isinstance(op, (ast.In, ast.NotIn)):
            res = []
            for found, s, _pos in self.member(a, b, st, lineno):
                if isinstance(found, Exc):
                    res.append((found, s))
                else:
                    res.append((z3.BoolVal(found if isinstance(op, ast.In) else (not found)), s))
            return res
        a, b = self.deref(a, st), self.deref(b, st)
        if isinstance(op, (ast.Eq, ast.Is)):
            return [(self.eq(a, b), st)]
        if isinstance(op, (ast.NotEq, ast.IsNot)):
            return [(z3.Not(self.eq(a, b)), st)]
        # ordering
        if isinstance(a, VOpaque) or isinstance(b, VOpaque):
            # a value outside the model: the comparison may go either way
            return [(z3.Bool("opaque_cmp!%s" % logic.fresh("n").decl().name().split("!")[1]), st)]
        for x in (a, b):
            if isinstance(x, VNone):
                return [(Exc("TypeError", lineno, "ordering with None"), st)]
        for k, x in enumerate((a, b)):
            if isinstance(x, VOpt):
                outs, ok = self.raise_if(st, x.isnone, "TypeError", lineno, "ordering with None")
                if ok is not None:
                    aa, bb = (x.val, b) if k == 0 else (a, x.val)
                    outs.extend(self.compare(op, aa, bb, ok, lineno))
                return outs
        for k, x in enumerate((a, b)):
            if isinstance(x, VDyn):
                outs, ok = self.raise_if(st, z3.Not(x.is_num()), "TypeError", lineno, "ordering a non-number")
                if ok is not None:
                    xn = self.dyn_num(x, ok)
                    aa, bb = (xn, b) if k == 0 else (a, xn)
                    outs.extend(self.compare(op, aa, bb, ok, lineno))
                return outs
        if isinstance(op, ast.Lt):
            return [(V.num_lt(a, b), st)]
        if isinstance(op, ast.LtE):
            return [(V.num_le(a, b), st)]
        if isinstance(op, ast.Gt):
            return [(V.num_lt(b, a), st)]
        if isinstance(op, ast.GtE):
            return [(V.num_le(b, a), st)]
        raise Unsupported("comparison %s" % type(op).__name__)

    def dyn_num(self, x, st):
        """numeric view of a dynamic value whose tag is known (on this path) to be numeric"""
        return Num(x.num)

    def eq(self, a, b):
        if isinstance(a, VTypeVal) and isinstance(b, VTypeVal):
            if a.of is None and b.of is None:
                return z3.BoolVal(a.name == b.name)
            if a.of is None:
                a, b = b, a
            if b.of is not None:
                raise Unsupported("type(x) == type(y)")
            v, n = a.of, b.name
            code = {"int": V.T_INT, "float": V.T_FLOAT, "str": V.T_STR, "bool": V.T_BOOL}[n]
            if isinstance(v, VDyn):
                return v.tag == code
            if isinstance(v, Num):
                return z3.BoolVal((n == "int") == v.is_int and n in ("int", "float"))
            if isinstance(v, VStr):
                return z3.BoolVal(n == "str")
            if isinstance(v, VBool):
                return z3.BoolVal(n == "bool")
            return z3.BoolVal(False)
        if isinstance(a, (VOpaque,)) or isinstance(b, (VOpaque,)):
            raise Unsupported("equality on opaque value")
        if isinstance(a, SList) or isinstance(b, SList):
            raise Unsupported("list equality as an expression")
        return V.eq(a, b)

    def member(self, x, lst, st, lineno):
        """x in lst -> list of (bool found | Exc, state, position term or None); forks."""
        lst = self.deref(lst, st)
        x = self.deref(x, st)
        if isinstance(x, SelfRef):
            x = self.ctx.contracts.self_obj(self, st)
        if isinstance(lst, VOpt) and isinstance(self.deref(lst.val, st), SList):
            exs, ok = self.raise_if(st, lst.isnone, "TypeError", lineno, "membership in None")
            res = [(e, s, None) for e, s in exs]
            if ok is not None:
                res.extend(self.member(x, lst.val, ok, lineno))
            return res
        if isinstance(lst, VTuple):
            c = z3.Or(*[V.eq(x, y) for y in lst.items]) if lst.items else z3.BoolVal(False)
            return [(b, s, None) for b, s in self.branch(st, c, lineno)]
        if isinstance(lst, VDict):
            c = z3.Or(*[V.eq(x, VStr(k)) for k in lst.items]) if lst.items and isinstance(x, VStr) else z3.BoolVal(False)
            return [(b, s, None) for b, s in self.branch(st, c, lineno)]
        if not isinstance(lst, SList):
            r = self.ctx.contracts.member(self, x, lst, st, lineno)
            if r is not None:
                return r
            raise Unsupported("membership in %r (line %d)" % (lst, lineno))
        outs = []
        p = logic.fresh_idx("pos")
        s1 = st.fork()
        s1.assume(z3.And(0 <= p, p < lst.len, V.eq(lst.at(p), x)))
        s1.assume(logic.Forall(1, lambda j: z3.Implies(z3.And(0 <= j, j < p), z3.Not(V.eq(lst.at(j), x))), [p],
                               "first-occurrence"))
        s1.trace.append("L%d:in" % lineno)
        if feasible(s1, self.ctx):
            outs.append((True, s1, p))
        s2 = st.fork()
        s2.assume(logic.Forall(1, lambda j: z3.Implies(z3.And(0 <= j, j < lst.len), z3.Not(V.eq(lst.at(j), x))),
                               [lst.len], "not-in"))
        s2.trace.append("L%d:notin" % lineno)
        if feasible(s2, self.ctx):
            outs.append((False, s2, None))
        return outs

    def e_ListComp(self, node, st):
        r = self.ctx.contracts.listcomp(self, node, st)
        if r is not None:
            return r
        if len(node.generators) == 1:
            # a comprehension over a value outside the model is outside the model (its element and filter expressions
            # may only mention the loop variables: checked syntactically, so nothing of the modelled state is touched)
            g0 = node.generators[0]
            rs = self.eval(g0.iter, st)
            if len(rs) == 1 and isinstance(self.deref(rs[0][0], rs[0][1]), VOpaque) if not isinstance(rs[0][0], Exc) else False:
                bound = {n.id for n in ast.walk(g0.target) if isinstance(n, ast.Name)}
                used = {n.id for e in [node.elt] + list(g0.ifs) for n in ast.walk(e) if isinstance(n, ast.Name)}
                calls = [n for e in [node.elt] + list(g0.ifs) for n in ast.walk(e) if isinstance(n, (ast.Call, ast.Attribute))]
                if used <= bound and not calls:
                    return [(VOpaque("listcomp(opaque)"), rs[0][1])]
        if len(node.generators) != 1 or node.generators[0].ifs:
            raise Unsupported("list comprehension shape (line %d)" % node.lineno)
        g = node.generators[0]
        outs = []
        for it, s in self.eval(g.iter, st):
            if isinstance(it, Exc):
                outs.append((it, s))
                continue
            it = self.deref(it, s)
            if not isinstance(it, SList) or not isinstance(g.target, ast.Name):
                raise Unsupported("list comprehension over %r" % (it,))
            # element expression must be pure and exception free: evaluated on a generic index
            outs.append((self.map_pure(node.elt, g.target.id, it, s, node.lineno), s))
        return outs

    def map_pure(self, elt, var, lst, st, lineno):
        def at(i):
            s = st.fork()
            s.loc[var] = lst.at(i)
            rs = self.eval(elt, s)
            if len(rs) != 1 or isinstance(rs[0][0], Exc) or len(rs[0][1].pc) != len(st.pc):
                raise Unsupported("comprehension element is not a pure total expression (line %d)" % lineno)
            return rs[0][0]
        probe = at(logic.fresh("probe"))
        return V.SList(lst.len, at, self.kind_of_value(probe))

    def e_Call(self, node, st):
        return self.call(node, st)

    # ------------------------------------------------------------- calls
    def call(self, node, st):
        f = node.func
        lineno = node.lineno
        # builtins by name
        if isinstance(f, ast.Name):
            name = f.id
            if name in ("next",) and node.args and isinstance(node.args[0], ast.GeneratorExp):
                return self.call_next_genexp(node, st)
            if name in ("sum", "any", "all") and node.args and isinstance(node.args[0], (ast.GeneratorExp, ast.ListComp)):
                return self.ctx.contracts.reduce_genexp(self, name, node, st)
            if name == "super":
                return [(VOpaque("super"), st)]
            if name in ("isinstance", "hasattr", "callable") and node.args:
                outs = []
                for v, s in self.eval(node.args[0], st):
                    if isinstance(v, Exc):
                        outs.append((v, s))
                    else:
                        outs.append((self.type_test(name, self.deref(v, s), node, s), s))
                return outs
            if name in st.loc and isinstance(st.loc[name], (VDyn,)):
                if node.args or node.keywords:
                    raise Unsupported("call of a user callable with arguments (line %d)" % lineno)
                return self.ctx.contracts.consult(self, st.loc[name], "call", st, node)
            outs = []
            for vals, s in self.eval_seq(node.args, st):
                if isinstance(vals, Exc):
                    outs.append((vals, s))
                    continue
                kw = {}
                ok = True
                for k in node.keywords:
                    rs = self.eval(k.value, s)
                    if len(rs) != 1 or isinstance(rs[0][0], Exc):
                        raise Unsupported("keyword argument with effects")
                    kw[k.arg] = rs[0][0]
                outs.extend(self.builtin(name, vals, kw, s, node))
            return outs
        if isinstance(f, ast.Attribute):
            # super().__init__(...)
            if isinstance(f.value, ast.Call) and isinstance(f.value.func, ast.Name) and f.value.func.id == "super":
                outs = []
                for vals, s in self.eval_seq(node.args, st):
                    if isinstance(vals, Exc):
                        outs.append((vals, s))
                    else:
                        self.ctx.super_call_node = node
                        outs.extend(self.ctx.contracts.call_super(self, f.attr, vals, s, lineno))
                return outs
            outs = []
            for base, s in self.eval(f.value, st):
                if isinstance(base, Exc):
                    outs.append((base, s))
                    continue
                for vals, s2 in self.eval_seq(node.args, s):
                    if isinstance(vals, Exc):
                        outs.append((vals, s2))
                        continue
                    kw = {}
                    for k in node.keywords:
                        rs = self.eval(k.value, s2)
                        if len(rs) != 1 or isinstance(rs[0][0], Exc):
                            raise Unsupported("keyword argument with effects")
                        kw[k.arg] = rs[0][0]
                    outs.extend(self.method(base, f.attr, vals, kw, s2, node))
            return outs
        # callee given by an expression (e.g. a table of functions indexed by a name)
        outs = []
        for fv, s in self.eval(f, st):
            if isinstance(fv, Exc):
                outs.append((fv, s))
                continue
            if not isinstance(fv, VFunc):
                raise Unsupported("call of %r at line %d" % (fv, lineno))
            for vals, s2 in self.eval_seq(node.args, s):
                if isinstance(vals, Exc):
                    outs.append((vals, s2))
                    continue
                if node.keywords:
                    raise Unsupported("keyword arguments in an indirect call (line %d)" % lineno)
                r = self.ctx.contracts.call_func(self, fv, vals, s2, node)
                if r is None:
                    raise Unsupported("call of function value %s at line %d" % (fv.name, lineno))
                outs.extend(r)
        return outs

    def type_test(self, name, v, node, st):
        """isinstance / hasattr / callable on a value -> VBool"""
        if name == "callable":
            if isinstance(v, VDyn):
                return VBool(v.tag == V.T_FUNC)
            if isinstance(v, VFunc):
                return VBool(True)
            return VBool(False)
        if name == "hasattr":
            a = node.args[1]
            if not (isinstance(a, ast.Constant) and isinstance(a.value, str)):
                raise Unsupported("hasattr with a non-constant name")
            if a.value == "__next__":
                if isinstance(v, VDyn):
                    return VBool(v.tag == V.T_GEN)
                return VBool(False)
            r = self.ctx.contracts.has_attr(self, v, a.value, st)
            if r is not None:
                return r
            raise Unsupported("hasattr(%r, %r) at line %d" % (v, a.value, node.lineno))
        # isinstance
        t = node.args[1]
        names = [_type_name(e) for e in t.elts] if isinstance(t, ast.Tuple) else [_type_name(t)]
        if isinstance(v, VDyn):
            cs = []
            for n in names:
                if n == "int":
                    cs.append(z3.Or(v.tag == V.T_INT, v.tag == V.T_BOOL))
                elif n == "float":
                    cs.append(v.tag == V.T_FLOAT)
                elif n == "str":
                    cs.append(v.tag == V.T_STR)
                elif n == "bool":
                    cs.append(v.tag == V.T_BOOL)
                else:
                    r = self.ctx.contracts.isinstance_dyn(self, v, n, st)
                    if r is None:
                        raise Unsupported("isinstance(dyn, %s)" % n)
                    cs.append(r)
            return VBool(z3.Or(*cs) if len(cs) > 1 else cs[0])
        if isinstance(v, Num):
            ok = any((n == "int" and v.is_int) or (n == "float" and not v.is_int) for n in names)
            return VBool(ok)
        if isinstance(v, VStr):
            return VBool("str" in names)
        if isinstance(v, VBool):
            return VBool("bool" in names or "int" in names)
        if isinstance(v, VNone):
            return VBool(False)
        r = self.ctx.contracts.isinstance_other(self, v, names, st)
        if r is not None:
            return r
        raise Unsupported("isinstance(%r, %s) at line %d" % (v, names, node.lineno))

    def builtin(self, name, args, kw, st, node):
        lineno = node.lineno
        if name in ("list", "enumerate") and len(args) == 1 and isinstance(self.deref(args[0], st), VOpaque):
            return [(VOpaque("%s(%s)" % (name, self.deref(args[0], st).tag)), st)]       # a value outside the model stays outside the model
        if name == "len":
            v = self.deref(args[0], st)
            if isinstance(v, VOpt) and isinstance(v.val, SList):
                outs, ok = self.raise_if(st, v.isnone, "TypeError", lineno, "len(None)")
                if ok is not None:
                    outs.append((Num(v.val.len), ok))
                return outs
            if isinstance(v, SList):
                return [(Num(v.len), st)]
            if isinstance(v, VTuple):
                return [(Num(len(v.items)), st)]
            r = self.ctx.contracts.len_of(self, v, st, lineno)
            if r is not None:
                return r
            raise Unsupported("len of %r" % (v,))
        if name == "next" and len(args) == 1 and isinstance(args[0], VDyn):
            return self.ctx.contracts.consult(self, args[0], "next", st, node)
        if name == "type" and len(args) == 1:
            return [(VTypeVal(of=self.deref(args[0], st)), st)]
        if name == "float" and len(args) == 1 and isinstance(args[0], VStr):
            if z3.is_int_value(args[0].t) and V.str_of_code(args[0].t.as_long()) == "inf":
                return [(Num(z3.RealVal(0), inf=z3.BoolVal(True)), st)]
        if name == "enumerate" and len(args) == 1:
            base = self.deref(args[0], st)
            if not isinstance(base, SList):
                raise Unsupported("enumerate of %r" % (base,))
            at = base.at
            off = V.as_num(kw["start"]).t if "start" in kw else z3.IntVal(0)
            return [(SList(base.len, lambda i: VTuple([Num(i + off), at(i)]), ("tuple", [("num", "int"), base.ekind])), st)]
        if name == "zip" and len(args) == 2:
            a, b = self.deref(args[0], st), self.deref(args[1], st)
            if isinstance(a, SList) and isinstance(b, SList):
                aa, ba = a.at, b.at
                n = z3.If(a.len <= b.len, a.len, b.len)
                return [(SList(n, lambda i: VTuple([aa(i), ba(i)]), ("tuple", [a.ekind, b.ekind])), st)]
            raise Unsupported("zip of %r and %r" % (a, b))
        if (name == "getattr" and len(args) == 3 and isinstance(args[1], VStr) and z3.is_int_value(args[1].t)
                and isinstance(args[2], VNone) and isinstance(self.deref(args[0], st), VObj)):
            # getattr(obj, "name", None): the attribute's value, or None when the object has no such attribute
            # (whether it has one is not tracked for arbitrary attributes: unconstrained)
            attr = V.str_of_code(args[1].t.as_long())
            fake = ast.Attribute(value=node.args[0], attr=attr, ctx=ast.Load())
            ast.copy_location(fake, node)
            outs = []
            for v, s in self.eval(fake, st):
                if isinstance(v, Exc):
                    outs.append((NONE, s))
                    continue
                v = self.deref(v, s)
                b = z3.Bool("missing!%s" % logic.fresh("n").decl().name().split("!")[1])
                if isinstance(v, VOpt):
                    outs.append((VOpt(z3.Or(b, v.isnone), v.val), s))
                elif isinstance(v, VNone):
                    outs.append((NONE, s))
                else:
                    outs.append((VOpt(b, v), s))
            return outs
        if name == "list" and len(args) == 1:
            base = self.deref(args[0], st)
            if not isinstance(base, SList):
                raise Unsupported("list() of %r" % (base,))
            return [(SList(base.len, base.at, base.ekind), st)]     # a snapshot: later writes do not show
        if name == "bool" and len(args) == 1:
            return [(VBool(V.truth(self.deref(args[0], st))), st)]
        if name == "str" or name == "id" or name == "repr":
            return [(VOpaque(name), st)]
        if name == "print":
            return [(NONE, st)]
        if name in ("max", "min") and len(args) == 2 and not kw:
            a, b = self.deref(args[0], st), self.deref(args[1], st)
            if isinstance(a, VDyn) or isinstance(b, VDyn):
                outs = []
                states = [st]
                for x in (a, b):
                    if isinstance(x, VDyn):
                        nxt = []
                        for s0 in states:
                            exs, ok = self.raise_if(s0, z3.Not(x.is_num()), "TypeError", lineno, "%s() of a non-number" % name)
                            outs.extend(exs)
                            if ok is not None:
                                nxt.append(ok)
                        states = nxt
                a2 = Num(a.num) if isinstance(a, VDyn) else a
                b2 = Num(b.num) if isinstance(b, VDyn) else b
                for s0 in states:
                    outs.extend(self.builtin(name, [a2, b2], kw, s0, node))
                return outs
            if isinstance(a, Num) and isinstance(b, Num) and a.inf is None and b.inf is None:
                at = a.t if not (a.is_int and not b.is_int) else z3.ToReal(a.t)
                bt = b.t if not (b.is_int and not a.is_int) else z3.ToReal(b.t)
                pick_a = (at >= bt) if name == "max" else (at <= bt)
                return [(Num(z3.If(pick_a, at, bt)), st)]
        if name == "abs":
            n = V.as_num(args[0])
            return [(Num(z3.If(n.t < 0, -n.t, n.t)), st)]
        if name in ("RuntimeError", "ValueError", "IndexError", "TypeError", "AssertionError", "AttributeError",
                    "KeyError", "Exception", "NotImplementedError"):
            return [(Exc(name, lineno), st)]   # exception *instance*; `raise` turns it into an outcome
        r = self.ctx.contracts.builtin(self, name, args, kw, st, node)
        if r is not None:
            return r
        raise Unsupported("call to %s() at line %d" % (name, lineno))

    def call_next_genexp(self, node, st):
        """next((x for x in L if cond(x)), default) -- first match."""
        ge = node.args[0]
        if len(ge.generators) != 1 or not isinstance(ge.generators[0].target, ast.Name):
            raise Unsupported("next() generator shape")
        g = ge.generators[0]
        var = g.target.id
        has_default = len(node.args) > 1
        outs = []
        for it, s in self.eval(g.iter, st):
            if isinstance(it, Exc):
                outs.append((it, s))
                continue
            lst = self.deref(it, s)
            if not isinstance(lst, SList):
                raise Unsupported("next() over %r" % (lst,))

            def cond_at(i, s=s, lst=lst):
                s2 = s.fork()
                s2.loc[var] = lst.at(i)
                cs = []
                for c in g.ifs:
                    rs = self.eval_pure(c, s2, node.lineno)
                    cs.append(V.truth(rs))
                return logic.conj(cs)

            def elt_at(i, s=s, lst=lst):
                s2 = s.fork()
                s2.loc[var] = lst.at(i)
                return self.eval_pure(ge.elt, s2, node.lineno)
            p = logic.fresh_idx("first")
            s1 = s.fork()
            s1.assume(z3.And(0 <= p, p < lst.len, cond_at(p)))
            s1.assume(logic.Forall(1, lambda j: z3.Implies(z3.And(0 <= j, j < p), z3.Not(cond_at(j))), [p],
                                   "first-match"))
            s1.trace.append("L%d:found" % node.lineno)
            if feasible(s1, self.ctx):
                s1.ghost.setdefault("first_match", []).append((node.lineno, p))
                outs.append((elt_at(p), s1))
            s2 = s.fork()
            s2.assume(logic.Forall(1, lambda j: z3.Implies(z3.And(0 <= j, j < lst.len), z3.Not(cond_at(j))),
                                   [lst.len], "no-match"))
            s2.trace.append("L%d:nomatch" % node.lineno)
            if feasible(s2, self.ctx):
                if has_default:
                    outs.extend(self.eval(node.args[1], s2))
                else:
                    outs.append((Exc("StopIteration", node.lineno), s2))
        return outs

    def eval_pure(self, node, st, lineno):
        """evaluate an expression that must be pure, total and non-branching -> Value"""
        npc = len(st.pc)
        nh = len(st.hyps)
        rs = self.eval(node, st)
        if len(rs) != 1 or isinstance(rs[0][0], Exc):
            raise Unsupported("expression must be pure and total (line %d): %s" % (lineno, ast.dump(node)[:80]))
        v, s = rs[0]
        if len(s.pc) != npc or len(s.hyps) != nh:
            raise Unsupported("expression must not branch (line %d)" % lineno)
        return self.deref(v, s)

    def method(self, base, name, args, kw, st, node):
        lineno = node.lineno
        if isinstance(base, SelfRef):
            return self.ctx.contracts.call_self(self, name, args, kw, st, lineno)
        if isinstance(base, EnvRef):
            return self.ctx.contracts.call_env(self, name, args, kw, st, node)
        if isinstance(base, FieldRef):
            return self.list_method(base, name, args, st, node)
        if isinstance(base, SList):
            return self.list_method(base, name, args, st, node)
        if isinstance(base, VObj):
            return self.ctx.contracts.call_obj(self, base, name, args, kw, st, node)
        if isinstance(base, VStr) and name == "join" and len(args) == 1 and isinstance(self.deref(args[0], st), VOpaque):
            return [(VOpaque("join(opaque)"), st)]
        if isinstance(base, VStr) and name in ("upper", "lower") and not args:
            # strings are only compared: upper()/lower() is an uninterpreted function, exact on the interned constants
            f = z3.Function("str_" + name, z3.IntSort(), z3.IntSort())
            s = st.fork()
            for const in list(V._STR):
                conv = getattr(const, name)()
                s.assume(f(z3.IntVal(V.str_const(const))) == z3.IntVal(V.str_const(conv)))
            return [(VStr(f(base.t)), s)]
        if isinstance(base, RecRef) and name == "get" and len(args) == 2 and isinstance(args[0], VStr):
            keys = self.rec_keys(base, st)
            r = args[1]
            for k in reversed(keys):
                r = V.ite(args[0].t == V.str_const(k), st.f[base.prefix + "." + k], r)
            return [(r, st)]
        if isinstance(base, VOpaque):
            r = self.ctx.contracts.call_opaque(self, base, name, args, kw, st, node)
            if r is not None:
                return r
        if isinstance(base, VOpt):
            outs, ok = self.raise_if(st, base.isnone, "AttributeError", lineno, "None.%s()" % name)
            if ok is not None:
                outs.extend(self.method(base.val, name, args, kw, ok, node))
            return outs
        if isinstance(base, VNone):
            return [(Exc("AttributeError", lineno, "None.%s()" % name), st)]
        r = self.ctx.contracts.call_other(self, base, name, args, kw, st, node)
        if r is not None:
            return r
        raise Unsupported("method %s on %r (line %d)" % (name, base, lineno))

    # list mutation: `base` is a FieldRef (mutation written back to the field) or a local list value
    def list_method(self, base, name, args, st, node):
        lineno = node.lineno
        if isinstance(base, FieldRef):
            lst = st.f[base.name]

            def write(s, new):
                s.f[base.name] = new
        else:
            lst = base
            target = node.func.value
            if not isinstance(target, ast.Name):
                raise Unsupported("mutation of a temporary list (line %d)" % lineno)

            def write(s, new):
                s.loc[target.id] = new
        if lst.ekind == ("any",) and args and name in ("append", "insert"):
            lst = SList(lst.len, lst.at, self.kind_of_value(args[-1]))
        if name == "append":
            s = st.fork()
            x = self.deref(args[0], st)
            if isinstance(x, SelfRef):
                x = self.ctx.contracts.self_obj(self, st)
            if isinstance(x, VDyn) and lst.ekind[0] == "num":
                # a dynamic number stored in a numeric list (the code has compared it with numbers before)
                x = Num(z3.ToInt(x.num)) if lst.ekind[1] == "int" else Num(x.num)
            write(s, V.list_append(lst, x))
            if isinstance(base, FieldRef):
                s.ghost.setdefault("sort_pos", []).append(lst.len)     # appended = inserted at the end (ghost witness)
            return [(NONE, s)]
        if name == "pop":
            if args:
                i = self.norm_index(lst, args[0])
            else:
                i = lst.len - 1
            outs, ok = self.raise_if(st, z3.Or(i < 0, i >= lst.len), "IndexError", lineno, "pop")
            if ok is not None:
                v = lst.at(i)
                write(ok, V.list_pop(lst, i))
                outs.append((v, ok))
            return outs
        if name == "insert":
            i = args[0].t
            i = z3.If(i < 0, i + lst.len, i)
            i = z3.If(i < 0, 0, z3.If(i > lst.len, lst.len, i))
            s = st.fork()
            write(s, V.list_insert(lst, i, self.deref(args[1], st)))
            if isinstance(base, FieldRef):
                # ghost: where an element was inserted into a field list (witness for "exists a position" contracts,
                # exactly like the position a sort() moved the last element to)
                s.ghost.setdefault("sort_pos", []).append(i)
            return [(NONE, s)]
        if name in ("index", "remove"):
            outs = []
            for found, s, p in self.member(args[0], lst, st, lineno):
                if not found:
                    outs.append((Exc("ValueError", lineno, "%s: not in list" % name), s))
                elif name == "index":
                    outs.append((Num(p), s))
                else:
                    write(s, V.list_pop(lst, p))
                    outs.append((NONE, s))
            return outs
        if name == "sort":
            return self.ctx.contracts.list_sort(self, base, lst, node, st, write)
        if name == "clear":
            s = st.fork()
            write(s, V.SList(z3.IntVal(0), lst.at, lst.ekind))
            return [(NONE, s)]
        raise Unsupported("list method %s (line %d)" % (name, lineno))

    # ------------------------------------------------------------- statements
    def exec_block(self, stmts, st):
        """-> list of Outcome"""
        outs = []
        work = [st]
        for k, stmt in enumerate(stmts):
            nxt = []
            for s in work:
                for o in self.exec_stmt(stmt, s):
                    if o.kind == "next":
                        nxt.append(o.state)
                    else:
                        outs.append(o)
            work = nxt
            if not work:
                break
        for s in work:
            outs.append(Outcome("next", s))
        return outs

    def exec_stmt(self, node, st):
        m = getattr(self, "s_" + type(node).__name__, None)
        if m is None:
            raise Unsupported("statement %s at line %d" % (type(node).__name__, node.lineno))
        return m(node, st)

    def s_Pass(self, node, st):
        return [Outcome("next", st)]

    def s_Break(self, node, st):
        return [Outcome("break", st)]

    def s_Continue(self, node, st):
        return [Outcome("continue", st)]

    def s_Expr(self, node, st):
        if isinstance(node.value, (ast.Yield, ast.YieldFrom)):
            return self.do_yield(node.value, st, None)
        if isinstance(node.value, ast.Constant):
            return [Outcome("next", st)]
        outs = []
        for v, s in self.eval(node.value, st):
            if isinstance(v, Exc):
                outs.append(Outcome("raise", s, v))
            else:
                outs.append(Outcome("next", s))
        return outs

    def s_Return(self, node, st):
        if node.value is None:
            return [Outcome("return", st, NONE)]
        outs = []
        for v, s in self.eval(node.value, st):
            if isinstance(v, Exc):
                outs.append(Outcome("raise", s, v))
            else:
                outs.append(Outcome("return", s, self.deref(v, s) if not isinstance(v, FieldRef) else v))
        return outs

    def s_Raise(self, node, st):
        if node.exc is None:
            cur = st.ghost.get("handling")
            if cur is None:
                raise Unsupported("bare raise outside handler")
            return [Outcome("raise", st, cur)]
        outs = []
        for v, s in self.eval(node.exc, st):
            if not isinstance(v, Exc):
                raise Unsupported("raise of non-exception %r (line %d)" % (v, node.lineno))
            v.lineno = node.lineno
            outs.append(Outcome("raise", s, v))
        return outs

    def s_Assert(self, node, st):
        outs = []
        for c, s in self.eval(node.test, st):
            if isinstance(c, Exc):
                outs.append(Outcome("raise", s, c))
                continue
            for b, s2 in self.branch(s, V.truth(self.deref(c, s)), node.lineno):
                if b:
                    outs.append(Outcome("next", s2))
                else:
                    outs.append(Outcome("raise", s2, Exc("AssertionError", node.lineno)))
        return outs

    def s_If(self, node, st):
        outs = []
        for c, s in self.eval(node.test, st):
            if isinstance(c, Exc):
                outs.append(Outcome("raise", s, c))
                continue
            for b, s2 in self.branch(s, V.truth(self.deref(c, s)), node.lineno):
                outs.extend(self.exec_block(node.body if b else node.orelse, s2))
        return _merge_twins(outs, st)

    def s_Assign(self, node, st):
        if isinstance(node.value, (ast.Yield, ast.YieldFrom)):
            return self.do_yield(node.value, st, node.targets)
        outs = []
        for v, s in self.eval(node.value, st):
            if isinstance(v, Exc):
                outs.append(Outcome("raise", s, v))
                continue
            states = [s]
            for tgt in node.targets:
                nxt = []
                for s1 in states:
                    for o in self.assign(tgt, v, s1, node.lineno):
                        if o.kind == "next":
                            nxt.append(o.state)
                        else:
                            outs.append(o)
                states = nxt
            outs.extend(Outcome("next", s1) for s1 in states)
        return outs

    def s_AnnAssign(self, node, st):
        if node.value is None:
            return [Outcome("next", st)]
        fake = ast.Assign(targets=[node.target], value=node.value, lineno=node.lineno)
        return self.s_Assign(fake, st)

    def s_AugAssign(self, node, st):
        load = _as_load(node.target)
        outs = []
        for vals, s in self.eval_seq([load, node.value], st):
            if isinstance(vals, Exc):
                outs.append(Outcome("raise", s, vals))
                continue
            for r, s2 in self.binop(node.op, vals[0], vals[1], s, node.lineno):
                if isinstance(r, Exc):
                    outs.append(Outcome("raise", s2, r))
                else:
                    outs.extend(self.assign(node.target, r, s2, node.lineno))
        return outs

    def assign(self, tgt, v, st, lineno):
        """-> list of Outcome (next / raise)"""
        if isinstance(tgt, ast.Name):
            s = st.fork()
            if isinstance(v, SList) and False:
                pass
            s.loc[tgt.id] = v
            return [Outcome("next", s)]
        if isinstance(tgt, ast.Tuple):
            v = self.deref(v, st)
            if isinstance(v, VOpaque) and ".items()" in v.tag and v.tag.endswith(".elem") and len(tgt.elts) == 2 \
                    and all(isinstance(e, ast.Name) for e in tgt.elts):
                # an element of a dict.items() view outside the model: a (key, value) pair of opaque values
                s = st.fork()
                s.loc[tgt.elts[0].id] = VOpaque(v.tag + ".key")
                s.loc[tgt.elts[1].id] = VOpaque(v.tag + ".value")
                return [Outcome("next", s)]
            if not isinstance(v, VTuple) or len(v.items) != len(tgt.elts):
                raise Unsupported("tuple unpacking of %r (line %d)" % (v, lineno))
            states = [st]
            outs = []
            for t, x in zip(tgt.elts, v.items):
                nxt = []
                for s in states:
                    for o in self.assign(t, x, s, lineno):
                        (nxt if o.kind == "next" else outs).append(o.state if o.kind == "next" else o)
                states = nxt
            return outs + [Outcome("next", s) for s in states]
        if isinstance(tgt, ast.Attribute):
            outs = []
            for base, s in self.eval(tgt.value, st):
                if isinstance(base, Exc):
                    outs.append(Outcome("raise", s, base))
                    continue
                outs.extend(self.set_attr(base, tgt.attr, v, s, lineno))
            return outs
        if isinstance(tgt, ast.Subscript) and isinstance(tgt.slice, ast.Slice):
            return self.set_slice(tgt, v, st, lineno)
        if isinstance(tgt, ast.Subscript):
            outs = []
            for vals, s in self.eval_seq([tgt.value, tgt.slice], st):
                if isinstance(vals, Exc):
                    outs.append(Outcome("raise", s, vals))
                    continue
                outs.extend(self.set_item(vals[0], vals[1], v, s, tgt, lineno))
            return outs
        raise Unsupported("assignment target %s" % type(tgt).__name__)

    def set_attr(self, base, attr, v, st, lineno):
        if isinstance(base, SelfRef):
            s = st.fork()
            r = self.ctx.contracts.set_self_attr(self, attr, v, s, lineno)
            if r is not None:
                return r
            if isinstance(v, FieldRef):
                raise Unsupported("aliasing two list fields (line %d)" % lineno)
            if attr not in s.f and self.ctx.fname != "__init__" and not self.ctx.contracts.may_create(self.ctx.cls, attr):
                raise Unsupported("self.%s created outside __init__ and not in schema (line %d)" % (attr, lineno))
            s.f[attr] = v
            return [Outcome("next", s)]
        if isinstance(base, VObj):
            s = st.fork()
            r = self.ctx.contracts.set_obj_attr(self, base, attr, v, s, lineno)
            if r is not None:
                return r
            s.heap_set(base, attr, self.deref(v, s))
            return [Outcome("next", s)]
        if isinstance(base, VOpt):
            outs = []
            exs, ok = self.raise_if(st, base.isnone, "AttributeError", lineno, "None.%s =" % attr)
            outs.extend(Outcome("raise", s, e) for e, s in exs)
            if ok is not None:
                outs.extend(self.set_attr(base.val, attr, v, ok, lineno))
            return outs
        if isinstance(base, VOpaque):
            return [Outcome("next", st)]
        r = self.ctx.contracts.set_attr_other(self, base, attr, v, st, lineno)
        if r is not None:
            return r
        raise Unsupported("attribute assignment on %r (line %d)" % (base, lineno))

    def set_slice(self, tgt, v, st, lineno):
        """L[a:b] = R on a modelled list (no step): L becomes L[:a'] + R + L[max(a', b'):] with Python's clamping of the
        bounds (negative bounds count from the end, everything is clamped to 0..len)"""
        sl = tgt.slice
        if sl.step is not None:
            raise Unsupported("slice assignment with a step (line %d)" % lineno)
        v = self.deref(v, st)
        if not isinstance(v, SList):
            raise Unsupported("slice assignment of %r (line %d)" % (v, lineno))
        parts = [tgt.value] + [b for b in (sl.lower, sl.upper) if b is not None]
        outs = []
        for vals, s in self.eval_seq(parts, st):
            if isinstance(vals, Exc):
                outs.append(Outcome("raise", s, vals))
                continue
            base = vals[0]
            lst = self.deref(base, s)
            if not isinstance(lst, SList):
                raise Unsupported("slice assignment on %r (line %d)" % (lst, lineno))
            rest = list(vals[1:])
            n = lst.len

            def clamp(x):
                x = V.as_num(self.deref(x, s)).t
                x = z3.If(x < 0, x + n, x)
                return z3.If(x < 0, 0, z3.If(x > n, n, x))
            a = clamp(rest.pop(0)) if sl.lower is not None else z3.IntVal(0)
            b = clamp(rest.pop(0)) if sl.upper is not None else n
            b = z3.If(b < a, a, b)
            rhs = v
            if rhs.ekind == ("any",) or rhs.ekind != lst.ekind:
                at_r = rhs.at
                rhs = SList(rhs.len, at_r, lst.ekind)
            new = V.list_concat(V.list_concat(V.list_slice_to(lst, a), rhs), V.list_slice_from(lst, b))
            s2 = s.fork()
            if isinstance(base, FieldRef):
                s2.f[base.name] = new
            elif isinstance(tgt.value, ast.Name):
                s2.loc[tgt.value.id] = new
            else:
                raise Unsupported("slice assignment on temporary list")
            outs.append(Outcome("next", s2))
        return outs

    def set_item(self, base, idx, v, st, tgt, lineno):
        if isinstance(base, RecRef) and isinstance(idx, VStr) and not z3.is_int_value(z3.simplify(idx.t)):
            # assignment under a symbolic key: the matching known key is updated; an unknown key creates a new
            # entry, which is outside the modelled record -> recorded in the ghost flag "<prefix>.__newkey__"
            keys = self.rec_keys(base, st)
            s = st.fork()
            for k in keys:
                fk = base.prefix + "." + k
                s.f[fk] = V.ite(idx.t == V.str_const(k), v, s.f[fk])
            known = z3.Or(*[idx.t == V.str_const(k) for k in keys]) if keys else z3.BoolVal(False)
            prev = s.ghost.get(base.prefix + ".__newkey__", z3.BoolVal(False))
            s.ghost[base.prefix + ".__newkey__"] = z3.Or(prev, z3.Not(known))
            return [Outcome("next", s)]
        if isinstance(base, RecRef):
            if not isinstance(idx, VStr) or not z3.is_int_value(z3.simplify(idx.t)):
                raise Unsupported("dict field with non-constant key")
            key = base.prefix + "." + V.str_of_code(z3.simplify(idx.t).as_long())
            s = st.fork()
            s.f[key] = v
            return [Outcome("next", s)]
        if isinstance(base, (FieldRef, SList)):
            lst = self.deref(base, st)
            i = self.norm_index(lst, idx)
            outs = []
            exs, ok = self.raise_if(st, z3.Or(i < 0, i >= lst.len), "IndexError", lineno)
            outs.extend(Outcome("raise", s, e) for e, s in exs)
            if ok is not None:
                at = lst.at
                new = SList(lst.len, lambda j: V.ite(j == i, v, at(j)), lst.ekind)
                if isinstance(base, FieldRef):
                    ok.f[base.name] = new
                elif isinstance(tgt.value, ast.Name):
                    ok.loc[tgt.value.id] = new
                else:
                    raise Unsupported("item assignment on temporary list")
                outs.append(Outcome("next", ok))
            return outs
        if isinstance(base, VOpaque):
            # a dictionary outside the model: no modelled effect; the write itself is remembered (ghost) so that a
            # contract can say "was registered"
            s = st.fork()
            if isinstance(tgt.value, ast.Attribute) and isinstance(tgt.value.value, ast.Name) and tgt.value.value.id == "self":
                s.ghost.setdefault("registered", []).append((tgt.value.attr, idx, v))
            return [Outcome("next", s)]
        r = self.ctx.contracts.set_item(self, base, idx, v, st, lineno)
        if r is not None:
            return r
        raise Unsupported("item assignment on %r (line %d)" % (base, lineno))

    def s_Delete(self, node, st):
        r = self.ctx.contracts.delete(self, node, st)
        if r is not None:
            return r
        outs = []
        states = [st]
        for tgt in node.targets:
            if not (isinstance(tgt, ast.Subscript) and not isinstance(tgt.slice, ast.Slice)):
                raise Unsupported("del of %s at line %d" % (type(tgt).__name__, node.lineno))
            nxt = []
            for s0 in states:
                for vals, s in self.eval_seq([tgt.value, tgt.slice], s0):
                    if isinstance(vals, Exc):
                        outs.append(Outcome("raise", s, vals))
                        continue
                    base, idx = vals
                    if not isinstance(base, (FieldRef, SList)):
                        raise Unsupported("del item of %r (line %d)" % (base, node.lineno))
                    # del L[i]  ==  L.pop(i) without using the value
                    fake = ast.Call(func=ast.Attribute(value=tgt.value, attr="pop", ctx=ast.Load()), args=[], keywords=[])
                    ast.copy_location(fake, node)
                    ast.copy_location(fake.func, node)
                    for v, s2 in self.list_method(base, "pop", [idx], s, fake):
                        if isinstance(v, Exc):
                            outs.append(Outcome("raise", s2, v))
                        else:
                            nxt.append(s2)
            states = nxt
        return outs + [Outcome("next", s) for s in states]

    def s_Try(self, node, st):
        outs = []
        body_outs = self.exec_block(node.body, st)
        after_handlers = []
        for o in body_outs:
            if o.kind == "raise":
                handled = False
                for h in node.handlers:
                    names = _handler_names(h)
                    if exc_matches(o.value.etype, names):
                        s = o.state.fork()
                        if h.name:
                            s.loc[h.name] = VOpaque("exc:" + o.value.etype)
                        prev = s.ghost.get("handling")
                        s.ghost["handling"] = o.value
                        for o2 in self.exec_block(h.body, s):
                            o2.state.ghost["handling"] = prev
                            after_handlers.append(o2)
                        handled = True
                        break
                if not handled:
                    after_handlers.append(o)
            elif o.kind == "next" and node.orelse:
                after_handlers.extend(self.exec_block(node.orelse, o.state))
            else:
                after_handlers.append(o)
        if not node.finalbody:
            return after_handlers
        for o in after_handlers:
            for f in self.exec_block(node.finalbody, o.state):
                if f.kind == "next":
                    outs.append(Outcome(o.kind, f.state, o.value))
                else:
                    outs.append(f)
        return outs

    # ------------------------------------------------------------- loops
    def s_While(self, node, st):
        return self.loop(node, st, kind="while")

    def s_For(self, node, st):
        return self.loop(node, st, kind="for")

    def loop(self, node, st, kind):
        ctx = self.ctx
        # loops are numbered syntactically (source order of the for/while statements of the function)
        ordinal = ctx.loop_index.get(id(node))
        if ordinal is None:
            ordinal = ctx.loop_ord
            ctx.loop_ord += 1
        spec = ctx.loop_invs.get(ordinal)
        if spec is None and kind == "while":
            spec = AutoScanLoop.match(node)          # derived invariant for a plain linear scan (checked like any other)
        if spec is None and kind == "for" and EffectFreeLoop.applies(self, st):
            spec = EffectFreeLoop(getattr(ctx.con, "props", ()))      # derived from the function's frame, checked
        if spec is None:
            raise Unsupported("loop #%d at line %d of %s.%s has no invariant" % (ordinal, node.lineno, ctx.cls, ctx.fname))
        if node.orelse:
            raise Unsupported("loop else")
        saved_ord = ctx.loop_ord
        outs = []
        # for-loops: evaluate iterable once
        iter_states = [(None, st)]
        if kind == "for":
            iter_states = []
            for it, s in self.eval(node.iter, st):
                if isinstance(it, Exc):
                    outs.append(Outcome("raise", s, it))
                else:
                    iter_states.append((it, s))
        for it, s_in in iter_states:
            s0 = s_in.fork()
            idxname = "__i%d" % ordinal
            if kind == "for":
                s0.loc[idxname] = Num(z3.IntVal(0))
                s0.loc["__it%d" % ordinal] = it
            entry = s0
            # 1. invariant holds on entry
            for item in spec.inv(self, entry, entry, "prove"):
                nm, cl = item[0], item[1]
                ctx.oblige("loop%d.init.%s" % (ordinal, nm), entry, [cl], "loop-init", node.lineno,
                           _inv_props(spec, item))
            # 2. arbitrary iteration
            sh = entry.fork()
            if getattr(spec, "cut", False):
                # cut point: the head state keeps nothing of the path that led here (path condition and
                # path-specific ghost state are dropped), so one exploration of the loop stands for every entry;
                # locals that survive the havoc must be the very same symbolic values for every entry
                live = {n.id for n in ast.walk(ctx.fnode) if isinstance(n, ast.Name) and isinstance(n.ctx, ast.Load)
                        and n.lineno >= node.lineno} | {k for k in entry.loc if k.startswith("__")}
                keep = {k: v for k, v in entry.loc.items() if k not in _stored_names(node) and k in live}
                for k in list(sh.loc):
                    if k not in keep and k not in _stored_names(node):
                        sh.loc[k] = None        # dead from here on (never read at or after the loop)
                seen = ctx.loop_cuts.get(ordinal)
                same = seen is not None and set(seen) == set(keep) and all(seen[k] is keep[k] for k in keep)
                if same:
                    continue
                if seen is None:
                    ctx.loop_cuts[ordinal] = keep
                    sh.pc, sh.hyps = list(ctx.old.pc), list(ctx.old.hyps)
                    sh.trace = ["cut@L%d" % node.lineno]
                    spec.cut_ghost(sh)
                # (an entry whose live locals differ from the first one is explored on its own, with its full path)
            spec.havoc(self, sh, node, ordinal)
            for item in spec.inv(self, entry, sh, "assume"):
                sh.assume(item[1])
            # 3. loop test
            if kind == "while":
                tests = []
                for c, s in self.eval(node.test, sh):
                    if isinstance(c, Exc):
                        outs.append(Outcome("raise", s, c))
                    else:
                        tests.extend(self.branch(s, V.truth(self.deref(c, s)), node.lineno))
            else:
                lst = self.deref(sh.loc["__it%d" % ordinal], sh)
                if isinstance(lst, VOpt) and isinstance(lst.val, SList):
                    ctx.oblige("loop%d.iterable-not-None" % ordinal, sh, [z3.Not(lst.isnone)], "noexc", node.lineno, ("C20",))
                    sh.assume(z3.Not(lst.isnone))
                    lst = lst.val
                    sh.loc["__it%d" % ordinal] = lst
                if isinstance(lst, VOpaque) and isinstance(spec, EffectFreeLoop):
                    # iterable outside the model: any number of iterations, each with an opaque element
                    tests = []
                    s_more = sh.fork()
                    s_more.trace.append("L%d:iter" % node.lineno)
                    for o in self.assign(node.target, VOpaque(lst.tag + ".elem"), s_more, node.lineno):
                        if o.kind == "next":
                            tests.append((True, o.state))
                        else:
                            outs.append(o)
                    s_done = sh.fork()
                    s_done.trace.append("L%d:done" % node.lineno)
                    tests.append((False, s_done))
                    lst = None
                elif not isinstance(lst, SList):
                    raise Unsupported("for over %r (line %d)" % (lst, node.lineno))
                i = sh.loc[idxname].t
                tests = [] if lst is not None else tests
                for b, s in (self.branch(sh, i < lst.len, node.lineno) if lst is not None else []):
                    if b:
                        s2 = s
                        lst2 = self.deref(s2.loc["__it%d" % ordinal], s2)
                        if isinstance(lst2, VOpt):
                            lst2 = lst2.val
                        for o in self.assign(node.target, lst2.at(i), s2, node.lineno):
                            o.state.loc[idxname] = Num(i + 1)
                            tests.append((True, o.state))
                    else:
                        # exhausted: the loop variable keeps the last element (it is unbound only for an empty list),
                        # unless the body itself rebinds it
                        if isinstance(node.target, ast.Name) and not any(
                                isinstance(n, ast.Name) and isinstance(n.ctx, ast.Store) and n.id == node.target.id
                                for b_ in node.body for n in ast.walk(b_)):
                            lst3 = self.deref(s.loc["__it%d" % ordinal], s)
                            if isinstance(lst3, VOpt):
                                lst3 = lst3.val
                            s.loc[node.target.id] = ("maybe_unbound", lst3.len >= 1, lst3.at(lst3.len - 1))
                        tests.append((False, s))
            for b, s in tests:
                if not b:
                    outs.append(Outcome("next", s))
                    continue
                ctx.loop_ord = saved_ord
                for o in self.exec_block(node.body, s):
                    if o.kind in ("next", "continue"):
                        for item in spec.inv(self, entry, o.state, "prove"):
                            nm, cl = item[0], item[1]
                            ctx.oblige("loop%d.preserve.%s" % (ordinal, nm), o.state, [cl], "loop-preserve",
                                       node.lineno, _inv_props(spec, item))
                        if spec.variant is not None:
                            ctx.oblige("loop%d.variant" % ordinal, o.state,
                                       [spec.variant(self, s, o.state)], "loop-variant", node.lineno, spec.props)
                    elif o.kind == "break":
                        outs.append(Outcome("next", o.state))
                    else:
                        outs.append(o)
        ctx.loop_ord = max(ctx.loop_ord, saved_ord)
        return outs

    # ------------------------------------------------------------- generators
    def do_yield(self, ynode, st, targets):
        ctx = self.ctx
        if ctx.yields is None:
            raise Unsupported("yield in a function without a process contract")
        if isinstance(ynode, ast.YieldFrom):
            raise Unsupported("yield from")
        outs = []
        vals = [(NONE, st)] if ynode.value is None else self.eval(ynode.value, st)
        ordinal = ctx.yield_ord
        ctx.yield_ord += 1
        for v, s in vals:
            if isinstance(v, Exc):
                outs.append(Outcome("raise", s, v))
                continue
            for rv, s2 in ctx.yields.on_yield(self, ordinal, ynode, v, s):
                if isinstance(rv, Exc):
                    outs.append(Outcome("raise", s2, rv))
                elif isinstance(rv, Outcome):
                    outs.append(rv)
                elif targets:
                    states = [s2]
                    for t in targets:
                        nxt = []
                        for s3 in states:
                            for o in self.assign(t, rv, s3, ynode.lineno):
                                (nxt if o.kind == "next" else outs).append(o.state if o.kind == "next" else o)
                        states = nxt
                    outs.extend(Outcome("next", s3) for s3 in states)
                else:
                    outs.append(Outcome("next", s2))
        return outs


def _handler_names(h):
    if h.type is None:
        return None
    if isinstance(h.type, ast.Tuple):
        return [_type_name(e) for e in h.type.elts]
    return [_type_name(h.type)]


def _type_name(n):
    if isinstance(n, ast.Name):
        return n.id
    if isinstance(n, ast.Attribute):
        return n.attr
    raise Unsupported("exception type expression")


def _as_load(t):
    import copy
    t2 = copy.deepcopy(t)
    for n in ast.walk(t2):
        if hasattr(n, "ctx"):
            n.ctx = ast.Load()
    return t2


def assigned_names(fnode):
    names = set()
    for n in ast.walk(fnode):
        if isinstance(n, ast.Name) and isinstance(n.ctx, (ast.Store, ast.Del)):
            names.add(n.id)
        elif isinstance(n, ast.ExceptHandler) and n.name:
            names.add(n.name)
    for a in fnode.args.args:
        names.add(a.arg)
    return names
