"""pyvc.contract -- function contracts, caller-side application, callee-side obligations.

A contract is written once and used on both sides:

  callee side  (verify_function): the body is executed symbolically from an
      arbitrary state satisfying  class invariant /\\ pre ; every exit path is
      judged: a normal exit must satisfy `normal_requires` (a condition on the
      *entry* state), every post clause and the class invariant; an exceptional
      exit must match an `ExcCase` (type, entry condition, clauses - usually
      "every field unchanged").
  caller side  (apply): assert pre (obligation at the call site), then one
      successor state per normal/exceptional case: fields in `modifies` are
      replaced by their `Def` value or by a fresh symbol, ghosts are fresh, and
      the post clauses are assumed.  The callee's body is never looked at.
"""
import os
import time
import z3
from . import values as V
from . import logic
from .state import State, HEAP_SCHEMA
from .execute import Exec, Ctx, Exc, Outcome, Obligation, FieldRef, assigned_names
from .values import Unsupported, NONE


class Def:
    """post clause: field `name` of self has exactly this value at exit."""

    def __init__(self, name, value, props=()):
        self.name = name
        self.value = value
        self.props = props


class DefHeap:
    """post clause: heap attribute array equals this array term at exit."""

    def __init__(self, attr, arr, props=()):
        self.attr = attr
        self.arr = arr
        self.props = props


class DefRes:
    def __init__(self, value, props=()):
        self.value = value
        self.props = props


class Clause:
    def __init__(self, name, clause, props=()):
        self.name = name
        self.clause = clause
        self.props = props


class Structural:
    """callee-side only: a Python-level fact about the executed path (e.g. which processes it spawned)."""

    def __init__(self, name, fn, props=(), caller_effect=None):
        self.name = name
        self.fn = fn       # fn(pc) -> z3 Bool / bool
        self.props = props
        self.caller_effect = caller_effect   # caller side: reproduce the ghost effect on pc.new


class Lemma:
    """parametric post clause fn(pc, e) -> QF z3 Bool, universally true in e (an object identity).
    Callee side: proved for a Skolem constant.  Caller side: assumed for the terms the caller cares about
    (state ghost "lemma_terms": the caller's own Skolem constant and, e.g., an edge's signalling events)."""

    def __init__(self, name, fn, props=()):
        self.name = name
        self.fn = fn
        self.props = props


class ExcCase:
    """allowed exceptional exit.  when(pc) -> clause over the ENTRY state (Forall/Exists allowed);
    clauses(pc) -> post clauses; unchanged=True adds 'every field and heap map equals its entry value'."""

    def __init__(self, etype, when, name, unchanged=True, clauses=None, props=(), may=False):
        self.may = may      # True: the exception is allowed under `when` but not required
        self.etype = etype
        self.when = when
        self.name = name
        self.unchanged = unchanged
        self.clauses = clauses
        self.props = props


class PostCtx:
    def __init__(self, side, old, new, args, res, lib, cls):
        self.side = side
        self.old = old
        self.new = new
        self.args = args
        self.res = res
        self.lib = lib
        self.cls = cls
        self._ghosts = {}

    def ghost(self, name, witness=None, sort="int"):
        if name in self._ghosts:
            return self._ghosts[name]
        if self.side == "callee":
            if witness is None:
                raise Unsupported("ghost %s needs a witness on the callee side" % name)
            g = witness()
        else:
            g = logic.fresh_idx("g_" + name) if sort == "int" else logic.fresh("g_" + name, sort)
        self._ghosts[name] = g
        return g


class FnContract:
    def __init__(self, name, params, pre=None, post=None, excs=(), modifies=(), heap_modifies=(),
                 result_kind=("none",), uses_inv=True, keeps_inv=True, normal_requires=None, props=(),
                 inv_skip=(), pure=False, is_init=False, allocates=False, advances_time=False, is_generator=False,
                 entry_assume=None):
        self.name = name
        self.params = params            # list of (pname, kind, default or None)
        self.pre = pre or (lambda st, args: [])
        self.post = post or (lambda c: [])
        self.excs = list(excs)
        self.modifies = tuple(modifies)
        self.heap_modifies = tuple(heap_modifies)
        self.result_kind = result_kind
        self.uses_inv = uses_inv        # class invariant assumed at entry
        self.keeps_inv = keeps_inv      # class invariant proved at normal exit
        self.inv_skip = tuple(inv_skip)  # invariant clause names neither assumed nor proved (helpers)
        self.normal_requires = normal_requires
        self.props = tuple(props)
        self.pure = pure
        self.is_init = is_init
        self.allocates = allocates
        self.advances_time = advances_time
        self.is_generator = is_generator
        self.entry_assume = entry_assume   # generator: rely facts at process start (clauses over the entry state)


# ---------------------------------------------------------------------------
# caller side


def unchanged_clauses(lib, cls, old, new, fields=None, heaps=None):
    out = []
    for fname in (fields if fields is not None else sorted(old.f)):
        a, b = old.f.get(fname), new.f.get(fname)
        if a is None or b is None:
            if a is not b:
                out.append(("unchanged." + fname, z3.BoolVal(False)))
            continue
        if a is b:
            continue
        if isinstance(a, V.SList):
            if not isinstance(b, V.SList):
                out.append(("unchanged." + fname, z3.BoolVal(False)))
                continue
            cl = V.list_eq_clauses(b, a, "unchanged." + fname)
            out.append(("unchanged.%s.len" % fname, cl[0]))
            out.append(("unchanged." + fname, cl[1]))
        elif isinstance(a, (V.VOpaque, V.VFunc)):
            continue
        else:
            out.append(("unchanged." + fname, V.eq(a, b)))
    for attr in (heaps if heaps is not None else sorted(old.h)):
        a, b = old.h.get(attr), new.h.get(attr)
        if a is None or b is None or a is b or a.eq(b):
            continue
        out.append(("unchanged.heap." + attr, a == b))
    return out


def apply_contract(ex, con, args, st, lineno, lib, cls):
    """caller side.  -> list of (Value | Exc, State)"""
    ctx = ex.ctx
    # 1. precondition obligations at the call site
    for nm, cl in con.pre(st, args):
        ctx.oblige("call.%s.pre.%s@L%d" % (con.name, nm, lineno), st, [cl], "call-pre", lineno, con.props)
    outs = []
    # 2. exceptional cases
    for case in con.excs:
        s = st.fork()
        pc = PostCtx("caller", st, s, args, None, lib, cls)
        s.assume(case.when(pc))
        s.trace.append("L%d:%s raises %s" % (lineno, con.name, case.etype))
        if case.clauses is not None:
            _build_new_state(con, pc, case.clauses, lineno)
        from .execute import feasible
        if feasible(s, ctx):
            outs.append((Exc(case.etype, lineno, "from %s" % con.name), s))
    # 3. normal case
    s = st.fork()
    pc = PostCtx("caller", st, s, args, None, lib, cls)
    if con.normal_requires is not None:
        s.assume(con.normal_requires(pc))
    res = _build_new_state(con, pc, con.post, lineno)
    # ghost: the results of the contract calls made so far on this path (for "the value stored is the one just computed")
    s.ghost.setdefault("call_results", []).append((con.name, res))
    if con.excs:
        from .execute import feasible
        if not feasible(s, ctx):
            return outs
    outs.append((res, s))
    return outs


def _build_new_state(con, pc, clauses_fn_result, lineno):
    """havoc the frame of `con` in pc.new, then apply Defs and assume clauses; returns the result value."""
    s = pc.new
    tag = "c%d_%s" % (lineno, con.name)
    defs = {}
    heapdefs = {}
    res = None
    plain = []
    # havoc first so that clauses evaluated lazily see fresh symbols
    for fname in con.modifies:
        if fname not in s.f and con.is_init and hasattr(pc.lib, "schema"):
            sch = pc.lib.schema(pc.cls)
            if fname in sch:
                s.f[fname] = V.mk_value("%s.%s!%d" % (tag, fname, logic._fresh_ctr[0]), sch[fname])
                logic._fresh_ctr[0] += 1
                if isinstance(s.f[fname], V.VDyn):
                    s.assume(s.f[fname].well_formed())
                continue
        if fname in s.f:
            s.f[fname] = _fresh_like(s.f[fname], "%s.%s!%d" % (tag, fname, logic._fresh_ctr[0]))
            logic._fresh_ctr[0] += 1
            if isinstance(s.f[fname], V.VDyn):
                s.assume(s.f[fname].well_formed())
    for attr in con.heap_modifies:
        s.heap_arr(attr)
        s.havoc_heap(attr, "%s!%d" % (tag, logic._fresh_ctr[0]))
        logic._fresh_ctr[0] += 1
    if con.allocates:
        nid = logic.fresh("next_id")
        s.pc.append(nid >= s.next_id)
        s.next_id = nid
    if con.result_kind[0] != "none":
        res = V.mk_value("%s.res!%d" % (tag, logic._fresh_ctr[0]), con.result_kind)
        logic._fresh_ctr[0] += 1
    else:
        res = NONE
    pc.res = res
    items = clauses_fn_result(pc) if callable(clauses_fn_result) else clauses_fn_result
    for it in items:
        if isinstance(it, Def):
            s.f[it.name] = it.value
        elif isinstance(it, DefHeap):
            s.h[it.attr] = it.arr
        elif isinstance(it, DefRes):
            res = it.value
            pc.res = res
        elif isinstance(it, Clause):
            plain.append(it)
        elif isinstance(it, Structural):
            if it.caller_effect is not None:
                it.caller_effect(pc)
        elif isinstance(it, Lemma):
            for t in pc.old.ghost.get("lemma_terms", []):
                plain.append(Clause(it.name, (lambda it, t: lambda c: it.fn(c, t))(it, t)))
        else:
            raise TypeError(it)
    for it in plain:
        cl = it.clause(pc) if callable(it.clause) else it.clause
        s.assume(cl)
    cg = dict(s.ghost.get("call_ghosts", {}))
    cg[con.name] = dict(pc._ghosts)
    s.ghost["call_ghosts"] = cg
    return res


def _fresh_like(v, name):
    if isinstance(v, V.SList):
        return V.mk_base_list(name, v.ekind)
    if isinstance(v, V.Num):
        return V.Num(z3.Int(name) if v.is_int else z3.Real(name), None if v.inf is None else z3.Bool(name + ".inf"))
    if isinstance(v, V.VBool):
        return V.VBool(z3.Bool(name))
    if isinstance(v, V.VObj):
        return V.VObj(z3.Int(name), v.kind)
    if isinstance(v, V.VStr):
        return V.VStr(z3.Int(name))
    if isinstance(v, V.VDyn):
        return V.VDyn(name)
    if isinstance(v, V.VOpt):
        return V.VOpt(z3.Bool(name + ".isnone"), _fresh_like(v.val, name + ".val"))
    if isinstance(v, V.VTuple):
        return V.VTuple([_fresh_like(x, "%s.%d" % (name, k)) for k, x in enumerate(v.items)])
    if isinstance(v, (V.VOpaque, V.VNone, V.VFunc)):
        return v
    raise Unsupported("fresh_like %r" % (v,))


# ---------------------------------------------------------------------------
# callee side


class FnResult:
    def __init__(self, cls, fname):
        self.cls = cls
        self.fname = fname
        self.obligations = []   # dicts
        self.paths = 0
        self.normal_paths = 0
        self.exc_paths = 0
        self.unsupported = None
        self.seconds = 0.0
        self.cover = None
        self.solver_checks = 0
        self.lineno = 0
        self.file = ""


def verify_function(lib, cls, fname, fnode, con, timeout_ms=10000, want_models=True, only=None, shard=None,
                    carve=None, only_prop=None):
    """callee side: returns FnResult with every obligation decided."""
    t0 = time.time()
    res = FnResult(cls, fname)
    res.lineno = fnode.lineno
    profile = lib.profile(cls)
    try:
        V.GENERIC_ITEMS[0] = False          # (a library switches it on for classes whose items are arbitrary objects)
        st0 = lib.initial_state(cls, fname, con)
        args = lib.bind_params(cls, fname, fnode, con, st0)
        # assumptions at entry
        entry = st0
        for nm, cl in lib.validity(cls, entry, con):
            entry.assume(cl)
        if con.uses_inv:
            for nm, cl, props in lib.invariant(cls, entry, side="assume"):
                if nm in con.inv_skip:
                    continue
                entry.assume(cl)
        for nm, cl in con.pre(entry, args):
            entry.assume(cl)
        if con.entry_assume is not None:
            for nm, cl in con.entry_assume(entry, args):
                entry.assume(cl)
        # Skolem constant of the parametric lemmas (also handed to callee contracts applied in the body)
        lemma_e0 = z3.Int("lemma_e0")
        entry.ghost["lemma_terms"] = list(entry.ghost.get("lemma_terms", [])) + [lemma_e0]
        old = entry.fork()      # frozen copy of the entry state for post clauses
        ctx = Ctx(cls, fname, lib, loop_invs=lib.loop_invs(cls, fname), yields=lib.yield_spec(cls, fname, con, old, args),
                  module=profile.get("file"))
        ctx.local_names = assigned_names(fnode)
        import ast as _ast
        k = 0
        for nd in _ast.walk(fnode):
            pass
        order = []

        def _visit(nd):
            for ch in _ast.iter_child_nodes(nd):
                if isinstance(ch, (_ast.For, _ast.While)):
                    order.append(ch)
                _visit(ch)
        _visit(fnode)
        ctx.loop_index = {id(nd): i for i, nd in enumerate(order)}
        ctx.loop_nodes = order
        ctx.fnode = fnode
        ctx.lemma_e0 = lemma_e0
        ctx.old = old
        ctx.args = args
        ctx.con = con
        ex = Exec(ctx)
        prep = getattr(con, "prepare", None)
        if prep:
            prep(ex)
        body_state = entry.fork()
        for k, v in args.items():
            body_state.loc[k] = v
        # cover: the entry assumptions are satisfiable (vacuity guard)
        cov = logic.solve(entry.pc + entry.hyps, [], timeout_ms=timeout_ms, want_model=True,
                          len_terms=lib.len_terms(entry), mode="model")
        res.cover = "sat" if cov.status == "refuted" else ("UNSAT" if cov.status == "proved" else (
            "sat-after-instantiation" if "sat-after-instantiation" in cov.reason else "unknown"))
        outcomes = ex.exec_block(fnode.body, body_state)
        outcomes = lib.finish_outcomes(ex, cls, fname, con, outcomes)
        res.paths = len(outcomes)
        for k, o in enumerate(outcomes):
            _judge(lib, cls, con, ctx, old, args, o, k, fnode)
        res.normal_paths = sum(1 for o in outcomes if o.kind in ("next", "return"))
        res.exc_paths = sum(1 for o in outcomes if o.kind == "raise")
        # reachability canary: at least one normal path is satisfiable (when the contract has a normal exit)
        obligs = ctx.obligs
        res.solver_checks = ctx.solver_checks
    except Unsupported as e:
        res.unsupported = str(e)
        res.seconds = time.time() - t0
        return res
    if os.environ.get("PYVC_LIST_ONLY"):
        # audit mode: which obligations (and property tags) does this unit generate?  nothing is decided
        res.obligations = [{"name": ob.name, "kind": ob.kind, "status": "listed", "props": list(ob.props), "seconds": 0.0,
                            "lineno": ob.lineno} for ob in obligs]
        res.seconds = time.time() - t0
        return res
    # decide obligations: all goals of one path state are first tried as one conjunction
    if only:
        obligs = [ob for ob in obligs if any(s in ob.name for s in only)]
    if only_prop:
        # a property check decides the obligations tagged with that property (the others belong to other checks)
        wanted = only_prop if isinstance(only_prop, (tuple, list, set)) else (only_prop,)
        obligs = [ob for ob in obligs if any(w in ob.props for w in wanted)]
    groups = {}
    order = []
    for ob in obligs:
        key = (id(ob.state), len(ob.pc), len(ob.hyps))
        if key not in groups:
            groups[key] = []
            order.append(key)
        groups[key].append(ob)
    if shard is not None:
        # split the work of one function over several processes: obligations are dealt out round-robin
        # inside each path-state group so that every shard gets a share of every (possibly hard) group
        si, sn = shard
        keep = set()
        for gi, key in enumerate(order):
            for j, ob in enumerate(groups[key]):
                # (rotated per group: the same -- possibly hard -- clause of different exits goes to different shards)
                if (j + 5 * gi) % sn == si:
                    keep.add(id(ob))
        obligs = [ob for ob in obligs if id(ob) in keep]
        for key in order:
            groups[key] = [ob for ob in groups[key] if id(ob) in keep]
    decided = {}
    carve = carve or {}
    carved = {}
    for ob in obligs:
        nn = norm_name(ob.name)
        if nn in carve:
            carved[id(ob)] = carve[nn]
    for key in order:
        grp = groups[key]
        simple = [ob for ob in grp if _is_simple_goal(ob) and id(ob) not in carved]
        if len(simple) >= 3:
            tb = time.time()
            r = discharge_batch(simple, timeout_ms, lib)
            if r:
                dt = (time.time() - tb) / len(simple)
                for ob in simple:
                    decided[id(ob)] = {"name": ob.name, "kind": ob.kind, "status": "proved", "seconds": round(dt, 4),
                                       "lineno": ob.lineno, "props": list(ob.props), "trace": ob.trace[-12:],
                                       "reason": "batch", "ninst": 0}
    for ob in obligs:
        if id(ob) in decided:
            res.obligations.append(decided[id(ob)])
        elif id(ob) in carved:
            # known finding with characteristic condition chi: the obligation must hold outside chi;
            # inside chi we only record whether the finding is still present
            chi_name = carved[id(ob)]
            # (process bodies: the condition is about the state at the last resumption)
            chi = lib.chi(cls, chi_name, ob.state.ghost.get("resume_old") or ctx.old, ctx.args)
            if chi is None:
                inside = discharge(ob, timeout_ms, want_models, lib)
                d = dict(inside)
                d["status"] = "carved"
                d["inside_chi"] = inside["status"]
                d["chi"] = chi_name
            else:
                ob_out = _with_hyp(ob, z3.Not(chi))
                d = discharge(ob_out, timeout_ms, want_models, lib)
                ob_in = _with_hyp(ob, chi)
                # inside chi only "still refutable?" is recorded (the native witness decides): no model search
                # unless the thorough tier asks for it
                thorough = bool(os.environ.get("PYVC_CVC5"))
                inside = discharge(ob_in, timeout_ms if thorough else min(timeout_ms, 4000), want_models and thorough, lib,
                                   max_rounds=25 if thorough else 0)
                if inside["status"] == "unknown":
                    inside["status"] = "not proved"
                d["inside_chi"] = inside["status"]
                d["chi"] = chi_name
                if "model" in inside:
                    d["chi_model"] = inside["model"]
                if d["status"] == "proved":
                    d["status"] = "carved"
            res.obligations.append(d)
        else:
            res.obligations.append(discharge(ob, timeout_ms, want_models, lib))
    # canary
    canary = {"name": "canary.normal-exit-reachable", "kind": "canary", "status": "proved", "props": [],
              "seconds": 0.0, "lineno": fnode.lineno}
    if getattr(con, "has_normal_exit", True) and (shard is None or shard[0] == 0):
        reach = False
        weak = False
        undecided_paths = []
        for o in outcomes:
            if o.kind in ("next", "return"):
                r = logic.solve(o.state.pc + o.state.hyps, [], timeout_ms=timeout_ms, want_model=True,
                                len_terms=lib.len_terms(o.state), mode="model")
                if r.status == "refuted":
                    reach = True
                    break
                if "sat-after-instantiation" in r.reason:
                    weak = True
                elif r.status != "proved":
                    undecided_paths.append(o)
        if not reach and not weak and undecided_paths:
            # the solver gave up (e.g. a busy machine): once more with a long budget before calling anything vacuous
            for o in undecided_paths[:3]:
                r = logic.solve(o.state.pc + o.state.hyps, [], timeout_ms=max(timeout_ms, 10000) * 4, want_model=True,
                                len_terms=lib.len_terms(o.state), mode="model")
                if r.status == "refuted":
                    reach = True
                    break
                if r.status != "proved":
                    weak = True       # not shown unreachable: never reported as vacuous
        if reach:
            canary["reason"] = "a normal exit path has a validated model"
        elif weak:
            canary["reason"] = "a normal exit path is satisfiable after index-set instantiation (model not validated)"
        else:
            canary["status"] = "vacuous"
    if shard is None or shard[0] == 0:
        res.obligations.append(canary)
    res.seconds = time.time() - t0
    return res


def _judge(lib, cls, con, ctx, old, args, o, k, fnode):
    """turn one path outcome into obligations."""
    st = o.state
    if o.kind in ("next", "return"):
        resv = o.value if o.kind == "return" else NONE
        if isinstance(resv, FieldRef):
            resv = st.f[resv.name]
        old = st.ghost.get("resume_old") or old     # generators: post is relative to the last resumption
        pc = PostCtx("callee", old, st, args, resv, lib, cls)
        if con.normal_requires is not None:
            ctx.oblige("exit%d.normal-requires" % k, st, [con.normal_requires(pc)], "post", fnode.lineno, con.props)
        # an exception case whose condition holds must not exit normally
        for case in con.excs:
            if case.may:
                continue
            wc = case.when(pc)
            neg_q, neg_f = logic.negate_clause(wc)
            # goal: not when  ==  (neg) ; expressed as clause
            ctx.oblige("exit%d.must-raise.%s" % (k, case.name), st, [NotClause(wc)], "exc", fnode.lineno, case.props)
        for it in con.post(pc):
            _post_item(ctx, pc, it, "exit%d" % k, fnode.lineno, con)
        if con.keeps_inv:
            for nm, cl, props in lib.invariant(cls, st, side="prove"):
                if nm in con.inv_skip:
                    continue
                ctx.oblige("exit%d.inv.%s" % (k, nm), st, [cl], "inv", fnode.lineno, props)
        for nm, cl in lib.frame(cls, con, old, st):
            ctx.oblige("exit%d.frame.%s" % (k, nm), st, [cl], "frame", fnode.lineno, con.props)
    elif o.kind == "raise":
        et = o.value.etype
        cases = [c for c in con.excs if c.etype == et]
        if not cases:
            # exception not allowed by the contract: the path must be infeasible
            ctx.oblige("exit%d.no-%s@L%d" % (k, et, o.value.lineno), st, [z3.BoolVal(False)], "noexc",
                       o.value.lineno, con.props + ("C20",))
            return
        old = st.ghost.get("resume_old") or old
        pc = PostCtx("callee", old, st, args, None, lib, cls)
        # the exit must be covered by (at least) one case; we check the disjunction of case conditions,
        # then each case's clauses under its condition.
        whens = [c.when(pc) for c in cases]
        if len(cases) == 1:
            ctx.oblige("exit%d.raise-%s.allowed-when.%s" % (k, et, cases[0].name), st, [whens[0]], "exc",
                       o.value.lineno, cases[0].props)
            case_states = [(cases[0], st)]
        else:
            # several admissible reasons for this exception type: one of them must hold
            if any(logic.is_forall(w) or logic.is_exists(w) for w in whens):
                raise Unsupported("several quantified exception cases of one type")
            ctx.oblige("exit%d.raise-%s@L%d.allowed-when.one-of(%s)" % (k, et, o.value.lineno, ",".join(c.name for c in cases)),
                       st, [z3.Or(*whens)], "exc", o.value.lineno, cases[0].props)
            case_states = [(c_, st) for c_ in cases if c_.unchanged is False and c_.clauses is None][:0]
        for case, s in case_states:
            if case.unchanged:
                for nm, cl in unchanged_clauses(lib, cls, old, s):
                    ctx.oblige("exit%d.raise-%s.%s" % (k, et, nm), s, [cl], "exc", o.value.lineno, case.props)
            if case.clauses is not None:
                for it in case.clauses(pc):
                    _post_item(ctx, pc, it, "exit%d.raise-%s" % (k, et), o.value.lineno, con)
    else:
        raise Unsupported("function exits with %s" % o.kind)


class NotClause:
    """negation wrapper used as a goal."""

    def __init__(self, c):
        self.c = c


def _post_item(ctx, pc, it, prefix, lineno, con):
    st = pc.new
    if isinstance(it, Def):
        cur = st.f.get(it.name)
        if cur is None:
            ctx.oblige("%s.post.%s" % (prefix, it.name), st, [z3.BoolVal(False)], "post", lineno, it.props or con.props)
            return
        if isinstance(it.value, V.SList):
            cl = V.list_eq_clauses(cur, it.value, it.name)
            ctx.oblige("%s.post.%s.len" % (prefix, it.name), st, [cl[0]], "post", lineno, it.props or con.props)
            ctx.oblige("%s.post.%s" % (prefix, it.name), st, [cl[1]], "post", lineno, it.props or con.props)
        else:
            ctx.oblige("%s.post.%s" % (prefix, it.name), st, [V.eq(cur, it.value)], "post", lineno,
                       it.props or con.props)
    elif isinstance(it, DefHeap):
        st.heap_arr(it.attr)
        ctx.oblige("%s.post.heap.%s" % (prefix, it.attr), st, [st.h[it.attr] == it.arr], "post", lineno,
                   it.props or con.props)
    elif isinstance(it, DefRes):
        if isinstance(pc.res, V.VNone) and not isinstance(it.value, V.VNone):
            ctx.oblige("%s.post.result" % prefix, st, [z3.BoolVal(False)], "post", lineno, it.props or con.props)
        elif isinstance(it.value, V.VNone):
            ctx.oblige("%s.post.result" % prefix, st, [z3.BoolVal(isinstance(pc.res, V.VNone))], "post", lineno,
                       it.props or con.props)
        else:
            ctx.oblige("%s.post.result" % prefix, st, [V.eq(pc.res, it.value)], "post", lineno, it.props or con.props)
    elif isinstance(it, Clause):
        cl = it.clause(pc) if callable(it.clause) else it.clause
        ctx.oblige("%s.post.%s" % (prefix, it.name), st, [cl], "post", lineno, it.props or con.props)
    elif isinstance(it, Structural):
        r = it.fn(pc)
        if isinstance(r, bool):
            r = z3.BoolVal(r)
        ctx.oblige("%s.post.%s" % (prefix, it.name), st, [r], "post", lineno, it.props or con.props)
    elif isinstance(it, Lemma):
        e0 = ctx.lemma_e0
        ctx.oblige("%s.post.%s" % (prefix, it.name), st, [it.fn(pc, e0)], "post", lineno, it.props or con.props)
    else:
        raise TypeError(it)


import re as _re


def norm_name(n):
    n = _re.sub(r"exit\d+\.", "", n)
    n = _re.sub(r"@L\d+", "", n)
    return n


def _with_hyp(ob, h):
    import copy
    ob2 = copy.copy(ob)
    ob2.pc = list(ob.pc) + [h]
    return ob2


def _is_simple_goal(ob):
    g = ob.goals[0]
    return len(ob.goals) == 1 and not isinstance(g, NotClause) and not logic.is_exists(g) \
        and not isinstance(g, logic.ForallExists)


def discharge_batch(obs, timeout_ms, lib):
    """one query for the conjunction of the goals of several obligations of the same path state."""
    hyps = list(obs[0].pc) + list(obs[0].hyps)
    negs = []
    for ob in obs:
        q, f = logic.negate_clause(ob.goals[0])
        negs.append(logic.conj(q))
    r = logic.solve(hyps, [z3.Or(*negs)], timeout_ms=timeout_ms, want_model=False, len_terms=())
    return r.status == "proved"


def discharge(ob, timeout_ms, want_models, lib, max_rounds=25):
    """decide one obligation -> dict (a goal whose clause cannot even be built -- e.g. it compares a value outside
    the model with a modelled one -- is undecided, never a crash and never a violation)"""
    try:
        return _discharge(ob, timeout_ms, want_models, lib, max_rounds)
    except Unsupported as e:
        return {"name": ob.name, "kind": ob.kind, "status": "unknown", "seconds": 0.0, "lineno": ob.lineno,
                "props": list(ob.props), "trace": ob.trace[-12:], "reason": "unsupported goal: %s" % e, "ninst": 0}


def _discharge(ob, timeout_ms, want_models, lib, max_rounds=25):
    hyps = list(ob.pc) + list(ob.hyps)
    negs_q = []
    extra_f = []
    for g in ob.goals:
        if isinstance(g, NotClause):
            # goal is the negation of clause c  ->  assume c and look for a contradiction
            c = g.c
            if logic.is_forall(c):
                extra_f.append(c)
            elif logic.is_exists(c):
                negs_q.append(c.skolemize())
            else:
                negs_q.append(c)
        else:
            q, f = logic.negate_clause(g)
            negs_q.extend(q)
            extra_f.extend(f)
    if len(ob.goals) != 1:
        raise Unsupported("one goal per obligation expected")
    r = logic.solve(hyps + extra_f, negs_q, timeout_ms=timeout_ms, want_model=want_models,
                    len_terms=lib.len_terms(ob.state), max_rounds=max_rounds)
    d = {"name": ob.name, "kind": ob.kind, "status": r.status, "seconds": round(r.seconds, 4),
         "lineno": ob.lineno, "props": list(ob.props), "trace": ob.trace[-12:], "reason": r.reason,
         "ninst": r.ninst}
    if r.status == "refuted" and r.model is not None:
        try:
            d["model"] = lib.model_to_json(ob.state, r.model, ob)
        except Exception as e:   # the model is a convenience; never let it mask the verdict
            d["model"] = {"error": repr(e)}
    return d
