"""pyvc.lib_base -- default executor hooks of a contract library (everything unknown is Unsupported)."""
from . import values as V
from .values import Unsupported


class LibBase:
    def __init__(self):
        self.globals = {"np": V.VOpaque("module:np"), "simpy": V.VOpaque("module:simpy"),
                        "math": V.VOpaque("module:math"), "random": V.VOpaque("module:random"), "bisect": V.VOpaque("module:bisect")}

    def call_func(self, ex, fv, args, st, node):
        return None

    def self_obj(self, ex, st):
        raise Unsupported("the object under verification used as a value")

    def inline_accessor(self, ex, name, args, kw, st, lineno):
        """a method of the class under verification that has no contract is executed in place if it is a small
        straight-line helper: no loop, no yield, no nested definition, at most 12 statements (after docstrings and prints
        are dropped), positional parameters only.  This is mechanical inlining of the real code (a refactoring that
        moves two lines into a helper must not make the caller unverifiable); anything bigger needs a contract.
        -> outcomes [(value, state)] or None"""
        import ast
        from pyvc import extract
        from pyvc.execute import Exc
        if kw:
            return None
        try:
            prof = self.profile(ex.ctx.cls)
            node = extract.load(prof["file"]).function(prof["cls"], name)
        except Exception:
            return None
        body = [b for b in node.body if not (isinstance(b, ast.Pass) or (isinstance(b, ast.Expr) and isinstance(b.value, ast.Constant)))]
        params = [a.arg for a in node.args.args[1:]]
        if len(params) != len(args) or node.args.vararg or node.args.kwarg or node.args.kwonlyargs or len(body) > 12:
            return None
        for n in ast.walk(node):
            if isinstance(n, (ast.Yield, ast.YieldFrom, ast.Await, ast.NamedExpr, ast.Lambda, ast.For, ast.While, ast.Try,
                              ast.With, ast.FunctionDef, ast.ClassDef, ast.Global, ast.Nonlocal)) and n is not node:
                return None
        if len(body) == 1 and isinstance(body[0], ast.Return) and body[0].value is not None and not params:
            return ex.eval(body[0].value, st)
        s0 = st.fork()
        saved = dict(s0.loc)
        s0.loc = {"self": saved.get("self")} if "self" in saved else {}
        for p_, a_ in zip(params, args):
            s0.loc[p_] = a_
        outs = []
        for o in ex.exec_block(body, s0):
            o.state.loc = dict(saved)
            if o.kind == "return":
                outs.append((o.value if o.value is not None else V.NONE, o.state))
            elif o.kind == "next":
                outs.append((V.NONE, o.state))
            elif o.kind == "raise":
                outs.append((o.value, o.state))
            else:
                return None
        return outs

    # --- class/schema queries
    def is_method(self, cls, attr):
        return attr in self.contracts.get(cls, {})

    def optional_fields(self, cls):
        return ()

    def may_create(self, cls, attr):
        return False

    def self_attr(self, ctx, attr, st):
        return None

    # --- expression hooks
    def obj_attr(self, ex, base, attr, st, lineno):
        return [(st.heap_get(base, attr), st)]

    def subscript(self, ex, base, idx, st, lineno):
        return None

    def member(self, ex, x, lst, st, lineno):
        return None

    def listcomp(self, ex, node, st):
        return None

    def reduce_genexp(self, ex, name, node, st):
        """any(e(x) for x in L [if c(x)]) / all(...) over a modelled list: decided path-wise with an index witness
        (any: some position satisfies c and e  |  none does;  all: some position satisfies c and not e  |  none does)"""
        import ast
        import z3
        from . import logic
        from . import values as V
        from .execute import Exc, feasible
        from .values import SList, VBool
        ge = node.args[0]
        if name not in ("any", "all") or len(ge.generators) != 1 or not isinstance(ge.generators[0].target, ast.Name):
            raise Unsupported("%s(genexp) at line %d" % (name, node.lineno))
        g = ge.generators[0]
        var = g.target.id
        outs = []
        for it, s in ex.eval(g.iter, st):
            if isinstance(it, Exc):
                outs.append((it, s))
                continue
            lst = ex.deref(it, s)
            if not isinstance(lst, SList):
                raise Unsupported("%s() over %r (line %d)" % (name, lst, node.lineno))

            def hit(i, s=s, lst=lst):
                s2 = s.fork()
                s2.loc[var] = lst.at(i)
                cs = [V.truth(ex.eval_pure(c, s2, node.lineno)) for c in g.ifs]
                e = V.truth(ex.eval_pure(ge.elt, s2, node.lineno))
                cs.append(e if name == "any" else z3.Not(e))
                return logic.conj(cs)
            p = logic.fresh_idx(name + "-witness")
            s1 = s.fork()
            s1.assume(z3.And(0 <= p, p < lst.len, hit(p)))
            s1.trace.append("L%d:%s-witness" % (node.lineno, name))
            if feasible(s1, ex.ctx):
                outs.append((VBool(z3.BoolVal(name == "any")), s1))
            s2 = s.fork()
            s2.assume(logic.Forall(1, lambda j: z3.Implies(z3.And(0 <= j, j < lst.len), z3.Not(hit(j))), [lst.len],
                                   name + "-no-witness"))
            s2.trace.append("L%d:%s-no-witness" % (node.lineno, name))
            if feasible(s2, ex.ctx):
                outs.append((VBool(z3.BoolVal(name != "any")), s2))
        return outs

    def len_of(self, ex, v, st, lineno):
        return None

    def builtin(self, ex, name, args, kw, st, node):
        return None

    def get_attr_other(self, ex, base, attr, st, lineno):
        return None

    def set_attr_other(self, ex, base, attr, v, st, lineno):
        return None

    def consult(self, ex, dyn, how, st, node):
        raise Unsupported("consulting a user callable/generator (line %d)" % node.lineno)

    def has_attr(self, ex, v, name, st):
        return None

    def isinstance_dyn(self, ex, v, tname, st):
        return None

    def isinstance_other(self, ex, v, names, st):
        return None

    # --- calls
    def call_super(self, ex, name, args, st, lineno):
        raise Unsupported("super().%s()" % name)

    def call_self(self, ex, name, args, kw, st, lineno):
        raise Unsupported("self.%s()" % name)

    def call_env(self, ex, name, args, kw, st, node):
        raise Unsupported("env.%s()" % name)

    def call_obj(self, ex, base, name, args, kw, st, node):
        raise Unsupported("%s.%s()" % (base.kind, name))

    def call_opaque(self, ex, base, name, args, kw, st, node):
        return None

    def call_other(self, ex, base, name, args, kw, st, node):
        return None

    def list_sort(self, ex, base, lst, node, st, write):
        raise Unsupported("list.sort")

    # --- statements
    def set_self_attr(self, ex, attr, v, st, lineno):
        return None

    def set_obj_attr(self, ex, base, attr, v, st, lineno):
        return None

    def set_item(self, ex, base, idx, v, st, lineno):
        return None

    def delete(self, ex, node, st):
        return None

    # --- verification plumbing
    def loop_invs(self, cls, fname):
        return {}

    def yield_spec(self, cls, fname, con, old, args):
        return None

    def finish_outcomes(self, ex, cls, fname, con, outcomes):
        return outcomes

    def frame(self, cls, con, old, new):
        return []

    def len_terms(self, st):
        return [v.len for v in st.f.values() if isinstance(v, V.SList)]

    def model_to_json(self, st, m, ob):
        return {}
