"""pyvc.logic -- clauses, universally quantified clauses over list indices,
instantiation and validated counter-models.

A *clause* is either a z3 BoolRef (quantifier free) or a `Forall`.
`Forall(n, fn, bounds)` stands for  "for all integers i1..in : fn(i1..in)".
`fn` must be a Python function from z3 Int terms to a quantifier-free z3
formula (it normally contains its own range guard 0 <= i < len).  `bounds` is a
list with, per variable, a z3 Int term u: only 0 <= i < u has to be enumerated
when a model is validated (outside of it the guard makes fn trivially true).

Proving   hyps |= goal :
  * goal clauses are Skolemised (fresh constants for their bound variables),
  * Forall hypotheses are instantiated on the index terms occurring in the
    query (two saturation rounds),
  * the quantifier-free query is given to z3; `unsat` proves the obligation
    (instantiation only ever weakens the hypotheses, so this is sound).
Refuting:
  * on `sat` the model is validated: every Forall hypothesis is evaluated at
    every index tuple within its bounds under the model; violated instances are
    added and the query re-solved (model-based instantiation).  A model that
    survives is a genuine counterexample of the quantified VC.
"""
import itertools
import time
import z3

_fresh_ctr = [0]


def fresh(prefix, sort=None):
    _fresh_ctr[0] += 1
    name = "%s!%d" % (prefix, _fresh_ctr[0])
    if sort is None or sort == "int":
        return z3.Int(name)
    if sort == "real":
        return z3.Real(name)
    if sort == "bool":
        return z3.Bool(name)
    return z3.Const(name, sort)


def fresh_idx(prefix):
    """fresh integer constant that denotes a list position (joins the instantiation set)."""
    c = fresh(prefix)
    REG.index_consts.add(c.decl().name())
    return c


class Forall:
    """for all i1..in (integers): fn(i1..in).  bounds[k] = exclusive upper bound
    term for variable k (lower bound 0) used when validating models."""

    def __init__(self, n, fn, bounds, name=""):
        self.n = n
        self.fn = fn
        self.bounds = list(bounds)
        self.name = name
        assert len(self.bounds) == n

    def inst(self, *terms):
        return self.fn(*terms)

    def skolem_negation(self):
        ks = [fresh_idx("sk") for _ in range(self.n)]
        return z3.Not(self.fn(*ks)), ks


class Exists:
    """exists i1..in (integers): fn(i1..in).  As a hypothesis it is Skolemised;
    as a goal its negation is a Forall hypothesis."""

    def __init__(self, n, fn, bounds, name=""):
        self.n = n
        self.fn = fn
        self.bounds = list(bounds)
        self.name = name

    def skolemize(self):
        ks = [fresh_idx("ex") for _ in range(self.n)]
        return self.fn(*ks)

    def negation(self):
        fn = self.fn
        return Forall(self.n, lambda *a: z3.Not(fn(*a)), self.bounds, "not-" + self.name)


def is_forall(c):
    return isinstance(c, Forall)


def is_exists(c):
    return isinstance(c, Exists)


class ForallExists:
    """goal-only clause: for all i (guard(i) => exists j: fn(i, j)).  As a hypothesis use an
    explicit inverse/witness function instead."""

    def __init__(self, guard, fn, jbound, name="", witnesses=()):
        self.guard = guard
        self.fn = fn
        self.jbound = jbound
        self.name = name
        self.witnesses = tuple(witnesses)    # candidate witness terms w(i): instantiation hints (sound: only instances)


def negate_clause(c):
    """negation of a clause as (qf formulas, forall hypotheses)"""
    if isinstance(c, ForallExists):
        k = fresh_idx("sk")
        fn = c.fn
        hints = [z3.Not(fn(k, w(k))) for w in c.witnesses]
        return [c.guard(k)] + hints, [Forall(1, lambda j: z3.Not(fn(k, j)), [c.jbound], "not-" + c.name)]
    if isinstance(c, Forall):
        n, _ = c.skolem_negation()
        return [n], []
    if isinstance(c, Exists):
        return [], [c.negation()]
    return [z3.Not(c)], []


def conj(xs):
    xs = [x for x in xs]
    if not xs:
        return z3.BoolVal(True)
    if len(xs) == 1:
        return xs[0]
    return z3.And(*xs)


# ---------------------------------------------------------------------------
# index-term collection


class Registry:
    """Functions / arrays whose integer arguments are list indices."""

    def __init__(self):
        self.index_fns = set()   # names of z3 FuncDecls that map index -> element
        self.index_consts = set()  # names of integer constants that denote list positions

    def register(self, decl):
        self.index_fns.add(decl.name())


REG = Registry()


def collect_index_terms(formulas, limit=90):
    seen = set()
    out = []
    visited = set()

    def add_index(a):
        # an ite-headed index contributes its branches (the ite itself is covered by them)
        if z3.is_app(a) and a.decl().kind() == z3.Z3_OP_ITE:
            add_index(a.arg(1))
            add_index(a.arg(2))
            return
        k = a.get_id()
        if k not in seen:
            seen.add(k)
            out.append(a)

    def walk(t):
        tid = t.get_id()
        if tid in visited:
            return
        visited.add(tid)
        if z3.is_app(t):
            d = t.decl()
            if d.kind() == z3.Z3_OP_UNINTERPRETED and t.num_args() == 1 and d.name() in REG.index_fns:
                add_index(t.arg(0))
            elif d.kind() == z3.Z3_OP_UNINTERPRETED and t.num_args() == 0 and d.name() in REG.index_consts:
                add_index(t)
            for c in t.children():
                walk(c)

    for f in formulas:
        walk(f)
    return out[:limit]


def collect_offsets(formulas, limit=6):
    """integer constants registered as positions/counts (ghost k, Skolem positions) plus 1"""
    out = [z3.IntVal(1)]
    seen = set()
    visited = set()

    def walk(t):
        if t.get_id() in visited:
            return
        visited.add(t.get_id())
        if z3.is_app(t):
            d = t.decl()
            if d.kind() == z3.Z3_OP_UNINTERPRETED and t.num_args() == 0 and d.name() in REG.index_consts \
                    and d.name().startswith("g_"):
                if t.get_id() not in seen:
                    seen.add(t.get_id())
                    out.append(t)
            for c in t.children():
                walk(c)
    for f in formulas:
        walk(f)
    return out[:limit]


def reset_names():
    _fresh_ctr[0] = 0


def _has_bound_var(t):
    return False  # we never build z3 quantifiers


# ---------------------------------------------------------------------------


CVC5 = {"agree": 0, "unknown": 0, "disagree": 0, "seconds": 0.0}


def second_opinion(solver, timeout_s=20):
    """thorough tier: re-decide an `unsat` query with cvc5 from the exported SMT-LIB text.
    -> 'unsat' | 'sat' | 'unknown'"""
    import os, subprocess, tempfile
    t0 = time.time()
    txt = solver.to_smt2()
    fd, path = tempfile.mkstemp(suffix=".smt2", prefix="pyvc.")
    try:
        with os.fdopen(fd, "w") as fh:
            fh.write("(set-logic ALL)\n" + txt)
        cp = subprocess.run(["/usr/bin/cvc5", "--tlimit=%d" % (timeout_s * 1000), path], capture_output=True, text=True,
                            timeout=timeout_s + 10)
        out = cp.stdout.strip().splitlines()
        r = out[0] if out else "unknown"
        if r not in ("unsat", "sat"):
            r = "unknown"
    except Exception:
        r = "unknown"
    finally:
        try:
            os.unlink(path)
        except OSError:
            pass
    CVC5["seconds"] += time.time() - t0
    CVC5["agree" if r == "unsat" else ("disagree" if r == "sat" else "unknown")] += 1
    return r


def _proved(solver, t0, reason, ninst=0):
    import os
    if os.environ.get("PYVC_CVC5") == "1":
        r = second_opinion(solver)
        if r == "sat":
            return Result("unknown", seconds=time.time() - t0, reason="z3 says unsat (%s) but cvc5 says sat" % reason, ninst=ninst)
        reason = reason + ";cvc5=" + r
    return Result("proved", seconds=time.time() - t0, reason=reason, ninst=ninst)


class Result:
    def __init__(self, status, model=None, seconds=0.0, rounds=0, reason="", ninst=0):
        self.status = status      # 'proved' | 'refuted' | 'unknown'
        self.model = model
        self.seconds = seconds
        self.rounds = rounds
        self.reason = reason
        self.ninst = ninst


def _mk_solver(timeout_ms):
    s = z3.SolverFor("QF_AUFLIRA") if False else z3.Solver()
    s.set("timeout", int(timeout_ms))
    return s


def bound_terms(foralls, limit=30):
    """the guard bounds of the quantified clauses belong to the index set (Bradley-Manna-Sipma)"""
    out = [z3.IntVal(0)]
    seen = {out[0].get_id()}
    for fa in foralls:
        for b in fa.bounds:
            for t in (b, b - 1):
                t = z3.simplify(t)
                if t.get_id() not in seen and not z3.is_int_value(t):
                    seen.add(t.get_id())
                    out.append(t)
    return out[:limit]


def _instantiate(foralls, terms, done, cap=6000):
    out = []
    for fa in foralls:
        if fa.n == 1:
            tuples = ((t,) for t in terms)
        elif fa.n == 2:
            tuples = itertools.product(terms, terms)
        else:
            tuples = itertools.product(*([terms] * fa.n))
        for tp in tuples:
            key = (id(fa),) + tuple(t.get_id() for t in tp)
            if key in done:
                continue
            done.add(key)
            out.append(fa.inst(*tp))
            if len(out) > cap:
                return out
    return out


def _model_int(m, t, default=0):
    v = m.eval(t, model_completion=True)
    try:
        return v.as_long()
    except Exception:
        return default


class ModelTooLarge(Exception):
    pass


def validate_model(m, foralls, enum_cap=12, extra_vals=()):
    """Return list of violated instances (z3 formulas) of the Forall hypotheses under model m.
    Every index tuple within the bounds is enumerated; a model whose bounds exceed enum_cap cannot be
    validated exhaustively (ModelTooLarge)."""
    bad = []
    for fa in foralls:
        ranges = []
        for b in fa.bounds:
            u = _model_int(m, b)
            if u > enum_cap:
                raise ModelTooLarge()
            ranges.append(range(0, max(0, u)))
        for tp in itertools.product(*ranges):
            inst = fa.inst(*[z3.IntVal(c) for c in tp])
            v = m.eval(inst, model_completion=True)
            if z3.is_false(v):
                bad.append(inst)
            elif not z3.is_true(v):
                # not fully evaluated: keep the instance as a hypothesis to be safe
                bad.append(inst)
    return bad


def solve(hyps, goal_negated, timeout_ms=10000, want_model=True, len_terms=(), max_rounds=25, mode="prove"):
    """hyps: list of clauses (BoolRef | Forall).  goal_negated: list of QF BoolRef
    (already Skolemised negation of the goal, conjoined).  Decide whether
    hyps /\\ goal_negated is unsatisfiable.

    Stage 1 (prove): the Forall hypotheses are handed to z3 as quantified formulas over the
      uninterpreted list functions (E-matching + MBQI).  `unsat` proves the obligation.
    Stage 2 (refute): our own instantiation over the index terms of the query, then model-based
      refinement for small list lengths (<= 2, 4, 8): a model is accepted only after every Forall
      hypothesis has been evaluated at every index tuple within its bounds.
    Anything else is `unknown` (never a violation)."""
    t0 = time.time()
    qf = [h for h in hyps if not is_forall(h)]
    fas = [h for h in hyps if is_forall(h)]
    base = qf + list(goal_negated)
    if mode == "qf":
        # cheap feasibility test: quantifier-free part only (unsat => really infeasible)
        s0 = _mk_solver(timeout_ms)
        for f in base:
            s0.add(f)
        r = s0.check()
        return Result("proved" if r == z3.unsat else "unknown", seconds=time.time() - t0)
    stage1 = "skipped"
    done = set()
    insts = []
    if mode == "prove":
        # 1a. z3 E-matching on the quantified hypotheses (no MBQI): fast when it works
        for mbqi, tmo in ((False, min(timeout_ms, 4000)),):
            s1 = _mk_solver(tmo)
            s1.set("smt.mbqi", mbqi)
            for f in base:
                s1.add(f)
            for fa in fas:
                vs = [z3.Int("q!%d" % k) for k in range(fa.n)]
                s1.add(z3.ForAll(vs, fa.inst(*vs)))
            r = s1.check()
            if r == z3.unsat:
                return _proved(s1, t0, "ematching")
        if max_rounds == 0:
            return Result("unknown", seconds=time.time() - t0, reason="e-matching only")
        # 1b. our own instantiation over the index terms of the query (quantifier free)
        for _ in range(2):
            terms = collect_index_terms(base + insts)
            new = _instantiate(fas, terms, done)
            if not new:
                break
            insts.extend(new)
        s1 = _mk_solver(timeout_ms)
        for f in base:
            s1.add(f)
        for f in insts:
            s1.add(f)
        r = s1.check()
        if r == z3.unsat:
            return _proved(s1, t0, "index-set instantiation", len(insts))
        stage1 = "sat-after-instantiation" if r == z3.sat else "unknown:" + s1.reason_unknown()
        # 1c. list views shift indices (pop/insert by 1, slices and concatenations by a length or a ghost count):
        #     close the index set under those offsets and try once more
        offs = collect_offsets(base)
        terms = collect_index_terms(base + insts, limit=150)
        tids = set(t.get_id() for t in terms)
        terms = terms + [t for t in bound_terms(fas) if t.get_id() not in tids]
        ext = list(terms)
        seen = set(t.get_id() for t in ext)
        for t in terms:
            for o in offs:
                for cand in (t - o, t + o):
                    cand = z3.simplify(cand)
                    if cand.get_id() not in seen:
                        seen.add(cand.get_id())
                        ext.append(cand)
        new = _instantiate([fa for fa in fas if fa.n == 1], ext[:900], done, cap=40000)
        if new:
            insts.extend(new)
            s1 = _mk_solver(timeout_ms)
            for f in base:
                s1.add(f)
            for f in insts:
                s1.add(f)
            r = s1.check()
            if r == z3.unsat:
                return _proved(s1, t0, "index-set instantiation closed under view offsets", len(insts))
        if not want_model:
            return Result("unknown", seconds=time.time() - t0, reason=stage1)
    else:
        for _ in range(2):
            terms = collect_index_terms(base + insts)
            new = _instantiate(fas, terms, done)
            if not new:
                break
            insts.extend(new)
        s1 = _mk_solver(timeout_ms)
        for f in base:
            s1.add(f)
        for f in insts:
            s1.add(f)
        r = s1.check()
        if r == z3.unsat:
            return Result("proved", seconds=time.time() - t0, ninst=len(insts))
        stage1 = "sat-after-instantiation" if r == z3.sat else "unknown"
    # refutation: with every list length <= B the quantifiers are finite conjunctions: expand them completely,
    # solve, and validate the model (every Forall at every index tuple within its bounds)
    for bound in (2, 4):
        s2 = _mk_solver(timeout_ms)
        for f in base:
            s2.add(f)
        for lt in len_terms:
            s2.add(lt <= bound)
        nums = [z3.IntVal(c) for c in range(0, bound + 1)]
        for fa in fas:
            for tp in itertools.product(*([nums] * fa.n)):
                s2.add(fa.inst(*tp))
        rounds = 0
        while rounds < 6:
            rounds += 1
            r = s2.check()
            if r != z3.sat:
                break
            m = s2.model()
            try:
                bad = validate_model(m, fas, enum_cap=bound + 3)
            except ModelTooLarge:
                # a bound that is not a list length (e.g. a position) exceeded the cap: constrain and retry
                for fa in fas:
                    for bt in fa.bounds:
                        s2.add(bt <= bound + 1)
                continue
            if not bad:
                return Result("refuted", model=m, seconds=time.time() - t0, rounds=rounds, ninst=len(insts))
            for bd in bad:
                s2.add(bd)
    if mode == "prove":
        s3 = _mk_solver(timeout_ms)
        for f in base:
            s3.add(f)
        for f in insts[:2000]:
            s3.add(f)
        for fa in fas:
            vs = [z3.Int("q!%d" % k) for k in range(fa.n)]
            s3.add(z3.ForAll(vs, fa.inst(*vs)))
        if s3.check() == z3.unsat:
            return _proved(s3, t0, "mbqi", len(insts))
    if mode == "prove":
        # last resort before giving up: the first stage again with a generous budget.  Its 4 s budget is sized for an
        # idle machine; when all cores are busy a query that normally takes 1-2 s can miss it, and the verdict must
        # not depend on the load (an `unknown` here would be reported as undecided, exit 2)
        s4 = _mk_solver(max(timeout_ms, 10000) * 4)
        s4.set("smt.mbqi", False)
        for f in base:
            s4.add(f)
        for fa in fas:
            vs = [z3.Int("q!%d" % k) for k in range(fa.n)]
            s4.add(z3.ForAll(vs, fa.inst(*vs)))
        if s4.check() == z3.unsat:
            return _proved(s4, t0, "ematching (retry with a long budget)")
        if insts:
            s5 = _mk_solver(max(timeout_ms, 10000) * 4)
            for f in base:
                s5.add(f)
            for f in insts:
                s5.add(f)
            if s5.check() == z3.unsat:
                return _proved(s5, t0, "index-set instantiation (retry with a long budget)", len(insts))
    return Result("unknown", seconds=time.time() - t0, ninst=len(insts),
                  reason="stage1=%s; no counter-model with all list lengths <= 8 survives validation" % stage1)


def skolemize_goal(clauses):
    """Negation of a conjunction of clauses as a QF disjunction; returns (formula, per-clause negations)."""
    negs = []
    for c in clauses:
        if is_forall(c):
            n, _ = c.skolem_negation()
        else:
            n = z3.Not(c)
        negs.append(n)
    if not negs:
        return z3.BoolVal(False), negs
    return (z3.Or(*negs) if len(negs) > 1 else negs[0]), negs
