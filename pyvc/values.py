"""pyvc.values -- symbolic Python values over z3 terms.

Numbers are mathematical integers / reals (assumption A-float: machine floats
are treated as reals).  `+inf` is supported on numbers through an optional
z3 Bool flag `inf` (used for the default store capacity float('inf')).
Objects (events, items, processes, edges ...) are integer identities with a
static `kind`.  Lists are *functional*: a length term and a Python function
from an index term to the element value; every list operation is a rewriting.
"""
import z3
from . import logic


class Unsupported(Exception):
    """A construct outside the modelled subset (never silently skipped)."""


class Value:
    pass


class VNone(Value):
    def __repr__(self):
        return "None"


NONE = VNone()


class VBool(Value):
    def __init__(self, t):
        if isinstance(t, bool):
            t = z3.BoolVal(t)
        self.t = t

    def __repr__(self):
        return "VBool(%s)" % self.t


class Num(Value):
    """number; t: z3 Int or Real term; inf: None (finite) or z3 Bool meaning value is +inf."""

    def __init__(self, t, inf=None):
        if isinstance(t, bool):
            raise TypeError
        if isinstance(t, int):
            t = z3.IntVal(t)
        elif isinstance(t, float):
            t = z3.RealVal(repr(t))
        self.t = t
        self.inf = inf

    @property
    def is_int(self):
        return self.t.sort() == z3.IntSort()

    def __repr__(self):
        return "Num(%s%s)" % (self.t, "" if self.inf is None else "|inf:%s" % self.inf)


class VObj(Value):
    def __init__(self, t, kind):
        self.t = t
        self.kind = kind

    def __repr__(self):
        return "VObj(%s:%s)" % (self.t, self.kind)


_STR = {}


def str_const(s):
    if s not in _STR:
        _STR[s] = len(_STR) + 1
    return _STR[s]


def str_of_code(code):
    for k, v in _STR.items():
        if v == code:
            return k
    return "<str#%s>" % code


class VStr(Value):
    """string restricted to equality; t is a z3 Int (interned constants)."""

    def __init__(self, t):
        if isinstance(t, str):
            t = z3.IntVal(str_const(t))
        self.t = t

    def __repr__(self):
        return "VStr(%s)" % self.t


class VTuple(Value):
    def __init__(self, items):
        self.items = list(items)

    def __repr__(self):
        return "VTuple(%r)" % (self.items,)


class VOpt(Value):
    """Either None (isnone) or `val`."""

    def __init__(self, isnone, val):
        self.isnone = isnone
        self.val = val

    def __repr__(self):
        return "VOpt(%s,%r)" % (self.isnone, self.val)


T_NONE, T_INT, T_FLOAT, T_STR, T_FUNC, T_GEN, T_OBJ, T_BOOL = 0, 1, 2, 3, 4, 5, 6, 7


class VDyn(Value):
    """dynamically typed configuration parameter (delay, selection policy, capacity ...).
    tag: z3 Int in T_*; num: z3 Real (value when the tag is int/float/bool); s: z3 Int (string code when str);
    oid: z3 Int (identity when callable / generator / other object)."""

    def __init__(self, name=None, tag=None, num=None, s=None, oid=None):
        if name is not None:
            tag = z3.Int(name + ".tag")
            num = z3.Real(name + ".num")
            s = z3.Int(name + ".str")
            oid = z3.Int(name + ".oid")
        self.tag, self.num, self.s, self.oid = tag, num, s, oid

    def is_num(self):
        return z3.Or(self.tag == T_INT, self.tag == T_FLOAT, self.tag == T_BOOL)

    def well_formed(self):
        return z3.And(self.tag >= 0, self.tag <= 7,
                      z3.Implies(z3.Or(self.tag == T_INT, self.tag == T_BOOL), z3.IsInt(self.num)),
                      z3.Implies(self.tag == T_BOOL, z3.Or(self.num == 0, self.num == 1)))

    def __repr__(self):
        return "VDyn(%s)" % self.tag


def same_dyn(a, b):
    """a and b are the very same dynamic value (not merely ==)"""
    a, b = dyn_of(a), dyn_of(b)
    return z3.And(a.tag == b.tag, z3.Implies(a.is_num(), a.num == b.num), z3.Implies(a.tag == T_STR, a.s == b.s),
                  z3.Implies(z3.And(a.tag >= T_FUNC, a.tag <= T_OBJ), a.oid == b.oid))


def dyn_of(v):
    """inject a statically typed value into VDyn"""
    if isinstance(v, VDyn):
        return v
    if isinstance(v, VNone):
        return VDyn(tag=z3.IntVal(T_NONE), num=z3.RealVal(0), s=z3.IntVal(0), oid=z3.IntVal(-1))
    if isinstance(v, Num):
        if v.inf is not None:
            raise Unsupported("possibly infinite number as dynamic value")
        return VDyn(tag=z3.IntVal(T_INT if v.is_int else T_FLOAT), num=(z3.ToReal(v.t) if v.is_int else v.t),
                    s=z3.IntVal(0), oid=z3.IntVal(-1))
    if isinstance(v, VStr):
        return VDyn(tag=z3.IntVal(T_STR), num=z3.RealVal(0), s=v.t, oid=z3.IntVal(-1))
    if isinstance(v, VBool):
        return VDyn(tag=z3.IntVal(T_BOOL), num=z3.If(v.t, z3.RealVal(1), z3.RealVal(0)), s=z3.IntVal(0), oid=z3.IntVal(-1))
    if isinstance(v, VObj):
        return VDyn(tag=z3.IntVal(T_OBJ), num=z3.RealVal(0), s=z3.IntVal(0), oid=v.t)
    raise Unsupported("dyn_of %r" % (v,))


class VOpaque(Value):
    def __init__(self, tag=""):
        self.tag = tag

    def __repr__(self):
        return "VOpaque(%s)" % self.tag


class VFunc(Value):
    """reference to a bound method / lambda (only stored or registered as callback)."""

    def __init__(self, name, node=None):
        self.name = name
        self.node = node


class SList(Value):
    def __init__(self, length, at, ekind="obj"):
        self.len = length
        self.at = at      # z3 Int term -> Value
        self.ekind = ekind

    def __repr__(self):
        return "SList(len=%s)" % self.len


# ---------------------------------------------------------------------------
# constructors for symbolic (pre-state) values


def mk_base_list(name, ekind):
    """Fresh symbolic list.  ekind: ('obj',kind) | ('num','int'|'real') | ('tuple',[ekinds]) | ('str',)"""
    ln = z3.Int(name + ".len")
    at = _mk_elem_fn(name, ekind)
    return SList(ln, at, ekind)


def _mk_elem_fn(name, ekind):
    tag = ekind[0]
    if tag == "obj":
        f = z3.Function(name, z3.IntSort(), z3.IntSort())
        logic.REG.register(f)
        return lambda i: VObj(f(i), ekind[1])
    if tag == "num":
        f = z3.Function(name, z3.IntSort(), z3.IntSort() if ekind[1] == "int" else z3.RealSort())
        logic.REG.register(f)
        return lambda i: Num(f(i))
    if tag == "str":
        f = z3.Function(name, z3.IntSort(), z3.IntSort())
        logic.REG.register(f)
        return lambda i: VStr(f(i))
    if tag == "bool":
        f = z3.Function(name, z3.IntSort(), z3.BoolSort())
        logic.REG.register(f)
        return lambda i: VBool(f(i))
    if tag == "tuple":
        fs = [_mk_elem_fn("%s.%d" % (name, k), ek) for k, ek in enumerate(ekind[1])]
        return lambda i: VTuple([g(i) for g in fs])
    raise Unsupported("element kind %r" % (ekind,))


def mk_value(name, kind):
    """fresh symbolic value of a declared kind."""
    tag = kind[0]
    if tag == "list":
        return mk_base_list(name, kind[1])
    if tag == "obj":
        return VObj(z3.Int(name), kind[1])
    if tag == "num":
        if kind[1] == "int":
            return Num(z3.Int(name))
        if kind[1] == "real":
            return Num(z3.Real(name))
        if kind[1] == "intinf":   # integer or +inf
            return Num(z3.Int(name), inf=z3.Bool(name + ".inf"))
        if kind[1] == "realinf":
            return Num(z3.Real(name), inf=z3.Bool(name + ".inf"))
    if tag == "bool":
        return VBool(z3.Bool(name))
    if tag == "str":
        return VStr(z3.Int(name))
    if tag == "opt":
        return VOpt(z3.Bool(name + ".isnone"), mk_value(name + ".val", kind[1]))
    if tag == "tuple":
        return VTuple([mk_value("%s.%d" % (name, k), ek) for k, ek in enumerate(kind[1])])
    if tag == "dyn":
        return VDyn(name)
    if tag == "opaque":
        return VOpaque(name)
    if tag == "none":
        return NONE
    raise Unsupported("kind %r" % (kind,))


# ---------------------------------------------------------------------------
# generic operations


def ite(c, a, b):
    if z3.is_true(c):
        return a
    if z3.is_false(c):
        return b
    if isinstance(a, VOpt) or isinstance(b, VOpt) or isinstance(a, VNone) or isinstance(b, VNone):
        a2, b2 = to_opt(a, b), to_opt(b, a)
        return VOpt(z3.If(c, a2.isnone, b2.isnone), ite(c, a2.val, b2.val))
    if isinstance(a, Num) and isinstance(b, Num):
        inf = None
        if a.inf is not None or b.inf is not None:
            inf = z3.If(c, a.inf if a.inf is not None else z3.BoolVal(False),
                        b.inf if b.inf is not None else z3.BoolVal(False))
        ta, tb = _coerce(a.t, b.t)
        return Num(z3.If(c, ta, tb), inf)
    if isinstance(a, VBool) and isinstance(b, VBool):
        return VBool(z3.If(c, a.t, b.t))
    if isinstance(a, VObj) and isinstance(b, VObj):
        return VObj(z3.If(c, a.t, b.t), a.kind)
    if isinstance(a, VStr) and isinstance(b, VStr):
        return VStr(z3.If(c, a.t, b.t))
    if isinstance(a, VTuple) and isinstance(b, VTuple) and len(a.items) == len(b.items):
        return VTuple([ite(c, x, y) for x, y in zip(a.items, b.items)])
    if isinstance(a, SList) and isinstance(b, SList):
        return SList(z3.If(c, a.len, b.len), lambda i: ite(c, a.at(i), b.at(i)), a.ekind)
    if isinstance(a, VDyn) or isinstance(b, VDyn):
        a, b = dyn_of(a), dyn_of(b)
        return VDyn(tag=z3.If(c, a.tag, b.tag), num=z3.If(c, a.num, b.num), s=z3.If(c, a.s, b.s), oid=z3.If(c, a.oid, b.oid))
    if isinstance(a, VOpaque) or isinstance(b, VOpaque):
        return VOpaque("ite")
    raise Unsupported("ite over %r / %r" % (a, b))


def to_opt(v, other=None):
    if isinstance(v, VOpt):
        return v
    if isinstance(v, VNone):
        if other is None or isinstance(other, VNone):
            return VOpt(z3.BoolVal(True), Num(0))
        o = other.val if isinstance(other, VOpt) else other
        return VOpt(z3.BoolVal(True), default_like(o))
    return VOpt(z3.BoolVal(False), v)


def default_like(v):
    if isinstance(v, Num):
        return Num(z3.IntVal(0) if v.is_int else z3.RealVal(0))
    if isinstance(v, VBool):
        return VBool(False)
    if isinstance(v, VObj):
        return VObj(z3.IntVal(-1), v.kind)
    if isinstance(v, VStr):
        return VStr(z3.IntVal(0))
    if isinstance(v, VTuple):
        return VTuple([default_like(x) for x in v.items])
    if isinstance(v, VOpaque):
        return v
    raise Unsupported("default_like %r" % (v,))


def _coerce(a, b):
    if a.sort() == b.sort():
        return a, b
    if a.sort() == z3.IntSort():
        a = z3.ToReal(a)
    if b.sort() == z3.IntSort():
        b = z3.ToReal(b)
    return a, b


def _finite(n):
    return z3.BoolVal(True) if n.inf is None else z3.Not(n.inf)


GENERIC_ITEMS = [False]      # set by a library while it verifies a class whose items are arbitrary objects


_OPAQUE_TRUTH = [0]


def is_literally_empty(lst):
    """the list value is the literal [] (length is the constant 0), not merely a list of elements of unknown kind"""
    n = z3.simplify(lst.len) if z3.is_expr(lst.len) else lst.len
    return (z3.is_int_value(n) and n.as_long() == 0) if z3.is_expr(n) else n == 0


def truth(v):
    """z3 Bool: Python truthiness of v."""
    if isinstance(v, VDyn):
        return z3.And(v.tag != T_NONE, z3.Implies(v.is_num(), v.num != 0),
                      z3.Implies(v.tag == T_STR, v.s != z3.IntVal(str_const(""))))
    if isinstance(v, VBool):
        return v.t
    if isinstance(v, VNone):
        return z3.BoolVal(False)
    if isinstance(v, Num):
        if v.inf is None:
            return v.t != 0
        return z3.Or(v.inf, v.t != 0)
    if isinstance(v, SList):
        return v.len > 0
    if isinstance(v, VObj) and v.kind == "item" and GENERIC_ITEMS[0]:
        # a generic store holds arbitrary Python objects: 0, "" or an empty batch are legitimate (falsy) items
        return z3.Function("item_truthy", z3.IntSort(), z3.BoolSort())(v.t)
    if isinstance(v, (VObj, VFunc)):
        return z3.BoolVal(True)
    if isinstance(v, VOpt):
        return z3.And(z3.Not(v.isnone), truth(v.val))
    if isinstance(v, VTuple):
        return z3.BoolVal(len(v.items) > 0)
    if isinstance(v, VStr):
        return v.t != z3.IntVal(str_const(""))
    if isinstance(v, VOpaque):
        # a value outside the model: its truthiness is an unconstrained fresh Boolean (both branches are explored; two
        # tests of the same opaque value are not correlated, which only adds paths)
        _OPAQUE_TRUTH[0] += 1
        return z3.Bool("opaque_truth!%d" % _OPAQUE_TRUTH[0])
    raise Unsupported("truthiness of %r" % (v,))


def eq(a, b):
    """z3 Bool: a == b (Python ==; for objects identity, as no class here defines __eq__)."""
    if isinstance(a, VDyn) or isinstance(b, VDyn):
        if isinstance(a, VOpt) or isinstance(b, VOpt):
            raise Unsupported("== between dynamic and optional value")
        a, b = dyn_of(a), dyn_of(b)
        num_eq = z3.And(a.is_num(), b.is_num(), a.num == b.num)
        return z3.Or(num_eq,
                     z3.And(a.tag == T_NONE, b.tag == T_NONE),
                     z3.And(a.tag == T_STR, b.tag == T_STR, a.s == b.s),
                     z3.And(a.tag == b.tag, a.tag >= T_FUNC, a.tag <= T_OBJ, a.oid == b.oid))
    if isinstance(a, VOpt) or isinstance(b, VOpt):
        if isinstance(a, VNone):
            return b.isnone
        if isinstance(b, VNone):
            return a.isnone
        a2, b2 = to_opt(a, b), to_opt(b, a)
        return z3.Or(z3.And(a2.isnone, b2.isnone),
                     z3.And(z3.Not(a2.isnone), z3.Not(b2.isnone), eq(a2.val, b2.val)))
    if isinstance(a, VNone) or isinstance(b, VNone):
        return z3.BoolVal(isinstance(a, VNone) and isinstance(b, VNone))
    if isinstance(a, Num) and isinstance(b, Num):
        ta, tb = _coerce(a.t, b.t)
        if a.inf is None and b.inf is None:
            return ta == tb
        ai = a.inf if a.inf is not None else z3.BoolVal(False)
        bi = b.inf if b.inf is not None else z3.BoolVal(False)
        return z3.And(ai == bi, z3.Or(ai, ta == tb))
    if isinstance(a, VBool) and isinstance(b, VBool):
        return a.t == b.t
    if isinstance(a, VBool) and isinstance(b, Num):
        return eq(Num(z3.If(a.t, 1, 0)), b)
    if isinstance(a, Num) and isinstance(b, VBool):
        return eq(a, Num(z3.If(b.t, 1, 0)))
    if isinstance(a, VObj) and isinstance(b, VObj):
        return a.t == b.t
    if isinstance(a, VStr) and isinstance(b, VStr):
        return a.t == b.t
    if isinstance(a, VTuple) and isinstance(b, VTuple):
        if len(a.items) != len(b.items):
            return z3.BoolVal(False)
        return logic.conj([eq(x, y) for x, y in zip(a.items, b.items)])
    if type(a) is not type(b) and not isinstance(a, VOpaque) and not isinstance(b, VOpaque):
        return z3.BoolVal(False)
    raise Unsupported("== over %r / %r" % (a, b))


def num_lt(a, b):
    a, b = as_num(a), as_num(b)
    ta, tb = _coerce(a.t, b.t)
    if a.inf is None and b.inf is None:
        return ta < tb
    ai = a.inf if a.inf is not None else z3.BoolVal(False)
    bi = b.inf if b.inf is not None else z3.BoolVal(False)
    return z3.And(z3.Not(ai), z3.Or(bi, ta < tb))


def num_le(a, b):
    a, b = as_num(a), as_num(b)
    ta, tb = _coerce(a.t, b.t)
    if a.inf is None and b.inf is None:
        return ta <= tb
    ai = a.inf if a.inf is not None else z3.BoolVal(False)
    bi = b.inf if b.inf is not None else z3.BoolVal(False)
    return z3.Or(bi, z3.And(z3.Not(ai), ta <= tb))


def as_num(v):
    if isinstance(v, Num):
        return v
    if isinstance(v, VBool):
        return Num(z3.If(v.t, 1, 0))
    raise Unsupported("number expected, got %r" % (v,))


def num_add(a, b):
    a, b = as_num(a), as_num(b)
    ta, tb = _coerce(a.t, b.t)
    inf = None
    if a.inf is not None or b.inf is not None:
        inf = z3.Or(a.inf if a.inf is not None else z3.BoolVal(False),
                    b.inf if b.inf is not None else z3.BoolVal(False))
    return Num(ta + tb, inf)


def num_sub(a, b):
    a, b = as_num(a), as_num(b)
    if b.inf is not None:
        raise Unsupported("subtraction of a possibly infinite value")
    ta, tb = _coerce(a.t, b.t)
    return Num(ta - tb, a.inf)


def num_neg(a):
    a = as_num(a)
    if a.inf is not None:
        raise Unsupported("negation of a possibly infinite value")
    return Num(-a.t)


def num_mul(a, b):
    a, b = as_num(a), as_num(b)
    if a.inf is not None or b.inf is not None:
        raise Unsupported("multiplication of a possibly infinite value")
    ta, tb = _coerce(a.t, b.t)
    return Num(ta * tb)


def num_truediv(a, b):
    """caller must have excluded b == 0."""
    a, b = as_num(a), as_num(b)
    if a.inf is not None or b.inf is not None:
        raise Unsupported("division of a possibly infinite value")
    ta = z3.ToReal(a.t) if a.is_int else a.t
    tb = z3.ToReal(b.t) if b.is_int else b.t
    return Num(ta / tb)


# ---------------------------------------------------------------------------
# list rewriting


def list_empty(ekind):
    return SList(z3.IntVal(0), lambda i: default_elem(ekind), ekind)


def default_elem(ekind):
    tag = ekind[0]
    if tag == "obj":
        return VObj(z3.IntVal(-1), ekind[1])
    if tag == "num":
        return Num(z3.IntVal(0) if ekind[1] == "int" else z3.RealVal(0))
    if tag == "str":
        return VStr(z3.IntVal(0))
    if tag == "bool":
        return VBool(False)
    if tag == "tuple":
        return VTuple([default_elem(e) for e in ekind[1]])
    raise Unsupported("default elem %r" % (ekind,))


def list_append(s, x):
    n = s.len
    at = s.at
    return SList(n + 1, lambda i: ite(i == n, x, at(i)) if not _is_const_lt(i, n) else at(i), s.ekind)


def _is_const_lt(i, n):
    return False


def list_pop(s, idx):
    """idx already normalised, 0 <= idx < len."""
    at = s.at
    return SList(s.len - 1, lambda i: ite(i < idx, at(i), at(i + 1)), s.ekind)


def list_insert(s, idx, x):
    """idx already clamped to 0..len."""
    at = s.at
    return SList(s.len + 1, lambda i: ite(i < idx, at(i), ite(i == idx, x, at(i - 1))), s.ekind)


def list_slice_from(s, a):
    """s[a:] with a already normalised to 0..len."""
    at = s.at
    return SList(s.len - a, lambda i: at(i + a), s.ekind)


def list_slice_to(s, b):
    """s[:b] with b already normalised to 0..len."""
    return SList(b, s.at, s.ekind)


def list_concat(s1, s2):
    a1, a2, n1 = s1.at, s2.at, s1.len
    return SList(s1.len + s2.len, lambda i: ite(i < n1, a1(i), a2(i - n1)), s1.ekind)


def list_eq_clauses(a, b, name="listeq"):
    """clauses stating a == b extensionally."""
    return [a.len == b.len,
            logic.Forall(1, lambda i: z3.Implies(z3.And(0 <= i, i < a.len), eq(a.at(i), b.at(i))), [a.len], name)]


def forall_idx(s, body, name=""):
    """forall i in range(len(s)): body(i, s.at(i))"""
    return logic.Forall(1, lambda i: z3.Implies(z3.And(0 <= i, i < s.len), body(i, s.at(i))), [s.len], name)


def forall_idx2(s1, s2, body, name="", strict_lt=False, same=False):
    """forall i in range(len(s1)), j in range(len(s2)): body(i, j, s1[i], s2[j]);
    same=True & strict_lt: only i<j."""
    def fn(i, j):
        g = [0 <= i, i < s1.len, 0 <= j, j < s2.len]
        if strict_lt:
            g.append(i < j)
        return z3.Implies(z3.And(*g), body(i, j, s1.at(i), s2.at(j)))
    return logic.Forall(2, fn, [s1.len, s2.len], name)
