"""pyvc.extract -- read the real source text of /repo on every run.

Nothing is copied or rewritten by hand: the FunctionDef nodes handed to the
executor come from ast.parse of the repository file in the current working tree.

Dropped by extraction (and reported in every evidence file):
  * `print(...)` expression statements (with the f-strings and calls inside them;
    calls inside a print must be on the whitelist below, else UNSUPPORTED),
  * docstrings and other bare string-literal statements,
  * import statements and module-level code other than def/class,
  * comments (not in the AST).
"""
import ast
import hashlib
import os

REPO = os.environ.get("PYVC_REPO", "/repo")
PKG = os.path.join(REPO, "src", "factorysimpy")

PRINT_CALL_WHITELIST = {"_get_belt_pattern", "is_stalled", "len", "sum", "round", "str", "type", "id", "repr",
                        "get", "items", "keys", "values", "join", "format"}

_cache = {}


class Extracted:
    def __init__(self, path):
        self.path = path
        with open(path, "r", encoding="utf-8") as fh:
            self.text = fh.read()
        self.sha = hashlib.sha256(self.text.encode()).hexdigest()[:16]
        self.tree = ast.parse(self.text, filename=path)
        self.dropped = []
        self.unsupported_prints = []
        self._strip(self.tree)

    def _strip(self, tree):
        ex = self

        class T(ast.NodeTransformer):
            def visit_Expr(self, node):
                v = node.value
                if isinstance(v, ast.Call) and isinstance(v.func, ast.Name) and v.func.id == "print":
                    for sub in ast.walk(v):
                        if isinstance(sub, ast.Call) and sub is not v:
                            nm = sub.func.attr if isinstance(sub.func, ast.Attribute) else (
                                sub.func.id if isinstance(sub.func, ast.Name) else "?")
                            if nm not in PRINT_CALL_WHITELIST:
                                ex.unsupported_prints.append((node.lineno, nm))
                            elif nm in ("_get_belt_pattern", "is_stalled"):
                                ex.dropped.append({"line": node.lineno, "what": "call %s() inside dropped print" % nm})
                    ex.dropped.append({"line": node.lineno, "what": "print"})
                    return ast.copy_location(ast.Pass(), node)
                if isinstance(v, ast.Constant) and isinstance(v.value, str):
                    return ast.copy_location(ast.Pass(), node)
                return self.generic_visit(node)
        T().visit(tree)
        ast.fix_missing_locations(tree)

    def classdef(self, cls):
        for n in self.tree.body:
            if isinstance(n, ast.ClassDef) and n.name == cls:
                return n
        raise KeyError("class %s not in %s" % (cls, self.path))

    def function(self, cls, name):
        if cls is None:
            for n in self.tree.body:
                if isinstance(n, ast.FunctionDef) and n.name == name:
                    return n
            raise KeyError("function %s not in %s" % (name, self.path))
        c = self.classdef(cls)
        found = [n for n in c.body if isinstance(n, ast.FunctionDef) and n.name == name]
        if not found:
            raise KeyError("%s.%s not in %s" % (cls, name, self.path))
        return found[-1]   # a later definition overrides an earlier one (Python semantics)

    def methods(self, cls):
        return [n.name for n in self.classdef(cls).body if isinstance(n, ast.FunctionDef)]


def load(relpath):
    path = os.path.join(PKG, relpath)
    if path not in _cache:
        _cache[path] = Extracted(path)
    return _cache[path]


def all_files():
    out = []
    for root, _d, files in os.walk(PKG):
        for f in sorted(files):
            if f.endswith(".py"):
                out.append(os.path.relpath(os.path.join(root, f), PKG))
    return sorted(out)
