"""pyvc.state -- symbolic program state."""
import z3
from . import values as V
from . import logic

# heap attributes of non-self objects: attr -> element kind
#   ('bool',) ('num','real'|'int') ('obj',kind) ('str',) ; optional ones as ('opt', kind)
HEAP_SCHEMA = {
    "triggered": ("bool",),
    "processed": ("bool",),
    "priority_to_put": ("num", "real"),
    "priority_to_get": ("num", "real"),
    "requesting_process": ("obj", "proc"),
    "resourcename": ("obj", "store"),
    "put_time": ("num", "real"),
    "filter": ("obj", "filter"),
    "fleet_entry_time": ("num", "real"),
    "conveyor_exit_time": ("opt", ("num", "real")),
    "absent:total_interruption_time": ("bool",),
    "absent:interruption_start_time": ("bool",),
    "fleet_exit_time": ("num", "real"),
    "length": ("num", "real"),
    "conveyor_entry_time": ("num", "real"),
    "conveyor_ready_item_entry_time": ("num", "real"),
    "total_interruption_time": ("num", "real"),
    "interruption_start_time": ("opt", ("num", "real")),
    "thread_state": ("str",),
    "timestamp_creation": ("opt", ("num", "real")),
    "timestamp_destruction": ("opt", ("num", "real")),
    "timestamp_node_entry": ("opt", ("num", "real")),
    "timestamp_node_exit": ("opt", ("num", "real")),
    "current_node_id": ("obj", "nodeid"),
    "source_id": ("obj", "nodeid"),
    "key": ("tuple", [("num", "real"), ("num", "real")]),
}


def _sort_of(kind):
    tag = kind[0]
    if tag == "bool":
        return z3.BoolSort()
    if tag == "num":
        return z3.IntSort() if kind[1] == "int" else z3.RealSort()
    return z3.IntSort()


class State:
    def __init__(self):
        self.f = {}        # fields of `self`
        self.h = {}        # heap attribute arrays  name -> z3 Array ; optional attrs add name+'?none'
        self.now = None    # z3 Real : env.now
        self.active = None  # z3 Int : env.active_process identity
        self.next_id = None  # z3 Int : identities >= next_id are not yet allocated
        self.loc = {}
        self.pc = []
        self.hyps = []
        self.ghost = {}
        self.trace = []

    def fork(self):
        s = State()
        s.f = dict(self.f)
        s.h = dict(self.h)
        s.now = self.now
        s.active = self.active
        s.next_id = self.next_id
        s.loc = dict(self.loc)
        s.pc = list(self.pc)
        s.hyps = list(self.hyps)
        s.ghost = {k: (list(v) if isinstance(v, list) else (dict(v) if isinstance(v, dict) else v))
                   for k, v in self.ghost.items()}
        s.trace = list(self.trace)
        return s

    # -- assumptions
    def assume(self, c):
        if logic.is_forall(c):
            self.hyps.append(c)
        elif logic.is_exists(c):
            self.pc.append(c.skolemize())
        else:
            if isinstance(c, bool):
                c = z3.BoolVal(c)
            self.pc.append(c)
        return self

    def assume_all(self, clauses):
        for c in clauses:
            self.assume(c)
        return self

    # -- heap
    def heap_arr(self, attr):
        if attr not in self.h:
            kind = HEAP_SCHEMA.get(attr)
            if kind is None:
                raise V.Unsupported("heap attribute %r has no declared kind" % attr)
            self._init_heap(attr, kind, "h0")
        return self.h[attr]

    def _init_heap(self, attr, kind, tag):
        if kind[0] == "opt":
            self.h[attr + "?none"] = z3.Array("%s.%s?none" % (tag, attr), z3.IntSort(), z3.BoolSort())
            inner = kind[1]
            self.h[attr] = z3.Array("%s.%s" % (tag, attr), z3.IntSort(), _sort_of(inner))
        elif kind[0] == "tuple":
            for k, ek in enumerate(kind[1]):
                self.h["%s#%d" % (attr, k)] = z3.Array("%s.%s#%d" % (tag, attr, k), z3.IntSort(), _sort_of(ek))
            self.h[attr] = None
        else:
            self.h[attr] = z3.Array("%s.%s" % (tag, attr), z3.IntSort(), _sort_of(kind))

    def heap_get(self, obj, attr):
        kind = HEAP_SCHEMA.get(attr)
        if kind is None:
            raise V.Unsupported("heap attribute %r has no declared kind" % attr)
        self.heap_arr(attr)
        if kind[0] == "opt":
            isnone = z3.Select(self.h[attr + "?none"], obj.t)
            return V.VOpt(isnone, _wrap(z3.Select(self.h[attr], obj.t), kind[1]))
        if kind[0] == "tuple":
            return V.VTuple([_wrap(z3.Select(self.h["%s#%d" % (attr, k)], obj.t), ek)
                             for k, ek in enumerate(kind[1])])
        return _wrap(z3.Select(self.h[attr], obj.t), kind)

    def heap_set(self, obj, attr, val):
        kind = HEAP_SCHEMA.get(attr)
        if kind is None:
            raise V.Unsupported("heap attribute %r has no declared kind" % attr)
        self.heap_arr(attr)
        if kind[0] == "opt":
            o = V.to_opt(val, V.VOpt(z3.BoolVal(False), V.default_elem(kind[1])))
            self.h[attr + "?none"] = z3.Store(self.h[attr + "?none"], obj.t, o.isnone)
            self.h[attr] = z3.Store(self.h[attr], obj.t, _unwrap(o.val, kind[1]))
        elif kind[0] == "tuple":
            if not isinstance(val, V.VTuple) or len(val.items) != len(kind[1]):
                raise V.Unsupported("tuple attribute %s := %r" % (attr, val))
            for k, ek in enumerate(kind[1]):
                key = "%s#%d" % (attr, k)
                self.h[key] = z3.Store(self.h[key], obj.t, _unwrap(val.items[k], ek))
        else:
            self.h[attr] = z3.Store(self.h[attr], obj.t, _unwrap(val, kind))

    def havoc_heap(self, attr, tag):
        kind = HEAP_SCHEMA[attr]
        self._init_heap(attr, kind, tag)

    # -- fresh objects
    def fresh_obj(self, kind):
        """allocate a new identity (>= all existing ones)."""
        t = self.next_id
        self.next_id = self.next_id + 1
        return V.VObj(t, kind)


def _wrap(t, kind):
    tag = kind[0]
    if tag == "bool":
        return V.VBool(t)
    if tag == "num":
        return V.Num(t)
    if tag == "obj":
        return V.VObj(t, kind[1])
    if tag == "str":
        return V.VStr(t)
    raise V.Unsupported("wrap %r" % (kind,))


def _unwrap(v, kind):
    tag = kind[0]
    if tag == "bool":
        if isinstance(v, V.VBool):
            return v.t
    if tag == "num":
        if isinstance(v, V.Num):
            if v.inf is not None:
                raise V.Unsupported("storing possibly infinite number in heap")
            if kind[1] == "real" and v.is_int:
                return z3.ToReal(v.t)
            return v.t
        if isinstance(v, V.VBool):
            return z3.If(v.t, 1, 0)
    if tag == "obj":
        if isinstance(v, V.VObj):
            return v.t
        if isinstance(v, V.VNone):
            return z3.IntVal(-1)
    if tag == "str":
        if isinstance(v, V.VStr):
            return v.t
    raise V.Unsupported("cannot store %r as %r" % (v, kind))
