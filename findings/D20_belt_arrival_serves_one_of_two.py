"""D20 witness (same root cause as D19, different call site): continuous BeltStore, accumulating.  While the head
item is at the very end of the belt (its travel time is used up but its mover process has not run yet in this
instant) no space request is admitted, so two requests made in that instant queue although there is room.  When the
mover then moves the item to ready_items it runs _trigger_reserve_put once, which serves only the head of the queue:
the second request stays pending although the store's own admission test holds for it (C04).
exit 1 = defect present, exit 0 = both granted or none servable."""
import io, sys, contextlib
import simpy
from factorysimpy.base.belt_store import BeltStore


class It:
    def __init__(self, i):
        self.id = i; self.length = 1.0; self.conveyor_entry_time = 0.0


def run():
    env = simpy.Environment()
    st = BeltStore(env, capacity=6, speed=1, accumulation_mode_indicator=True)
    out = {}

    def feeder():
        t = st.reserve_put(); yield t
        a = It("a"); a.conveyor_entry_time = env.now
        st.put(t, (a, 6.0))                   # full travel time: length*capacity/speed = 6

    def requester():
        yield env.timeout(0.5)
        yield env.timeout(5.5)               # scheduled before the mover's phase-2 timer, so it runs first at t=6
        out["t"] = env.now
        out["items_before"] = len(st.items)
        r1 = st.reserve_put(); r2 = st.reserve_put()
        out["pending_before"] = (r1.triggered, r2.triggered)
        yield env.timeout(0)                 # let the mover finish in this instant
        out["items_after"], out["ready_after"] = len(st.items), len(st.ready_items)
        out["after_arrival"] = (r1.triggered, r2.triggered)
        out["still_waiting"] = len(st.reserve_put_queue)
        st._trigger_reserve_put(None)        # a mere re-trigger in the same instant serves it
        out["second_granted_by_a_mere_retrigger"] = r2.triggered
    env.process(feeder())
    env.process(requester())
    for _ in range(5000):
        if env.peek() > 20:
            break
        env.step()
    return out


if __name__ == "__main__":
    with contextlib.redirect_stdout(io.StringIO()):
        try:
            o = run()
        except Exception as e:      # noqa
            o = {"error": repr(e)}
    print(o)
    bad = (o.get("pending_before") == (False, False) and o.get("after_arrival") == (True, False)
           and o.get("second_granted_by_a_mere_retrigger") is True)
    sys.exit(1 if bad else 0)
