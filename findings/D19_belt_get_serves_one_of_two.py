"""D19 witness: non-accumulating continuous BeltStore.  While an item waits at the exit no space request is admitted
(`len(ready_items)==0` is part of the admission test), so several requests can queue although there is room.  When the
waiting item is taken, get() runs _trigger_reserve_put once, which serves only the head of the queue: the second
request stays pending although the store's own admission test holds for it (C04: no request stays pending while it is
servable).  exit 1 = defect present (exactly one of the two requests granted, the other still servable by the
store's own test), exit 0 = both granted or none servable."""
import io, sys, contextlib
import simpy
from factorysimpy.base.belt_store import BeltStore


class It:
    def __init__(self, i):
        self.id = i; self.length = 1.0; self.conveyor_entry_time = 0.0


def run():
    env = simpy.Environment()
    st = BeltStore(env, capacity=6, speed=1, accumulation_mode_indicator=False)
    out = {}

    def proc():
        t = st.reserve_put(); yield t
        a = It("a"); a.conveyor_entry_time = env.now
        st.put(t, (a, 2.0))
        yield env.timeout(1.5)
        t = st.reserve_put(); yield t
        b = It("b"); b.conveyor_entry_time = env.now
        st.put(t, (b, 50.0))
        yield env.timeout(3)                 # a is waiting at the exit now, b is far behind and well spaced
        out["ready"] = [x.id for x in st.ready_items]
        r1 = st.reserve_put(); r2 = st.reserve_put()
        out["pending_before"] = (r1.triggered, r2.triggered)
        g = st.reserve_get(); yield g
        st.get(g)
        out["after_get"] = (r1.triggered, r2.triggered)
        # the store's own admission test for the request still waiting
        q = len(st.reserve_put_queue)
        out["still_waiting"] = q
        # any further trigger in the same instant serves it: it was servable all along
        st._trigger_reserve_put(None)
        out["second_granted_by_a_mere_retrigger"] = r2.triggered
    env.process(proc())
    for _ in range(5000):
        if env.peek() > 20:
            break
        env.step()
    return out


if __name__ == "__main__":
    with contextlib.redirect_stdout(io.StringIO()):
        try:
            o = run()
        except Exception as e:      # noqa
            o = {"error": repr(e)}
    print(o)
    bad = o.get("after_get") == (True, False) and o.get("second_granted_by_a_mere_retrigger") is True
    sys.exit(1 if bad else 0)
