"""D4 witness: FleetStore.fleet_activation_process hands the live list self.items to move_to_ready_items,
which pops from it while iterating over it: every other item of the batch is skipped.  Capacity 4, four items
loaded -> the fleet departs, after the round trip only the 1st and 3rd item are available; the 2nd and 4th stay
on the vehicle.  C14 demands that exactly the items waiting at departure become available together.
exit 1 = defect present, exit 0 = the whole batch arrived in loading order."""
import io, sys, contextlib
import simpy
from factorysimpy.base.fleet_store import FleetStore


class It:
    def __init__(self, i): self.id = i
    def __repr__(self): return "It(%s)" % self.id


def run():
    env = simpy.Environment()
    st = FleetStore(env, capacity=4, delay=100, transit_delay=1)

    def src():
        for k in "abcd":
            p = st.reserve_put(); yield p; st.put(p, It(k))
    env.process(src())
    steps = 0
    while steps < 5000 and env.peek() <= 3:
        env.step(); steps += 1
    return [x.id for x in st.ready_items], [x.id for x in st.items]


if __name__ == "__main__":
    with contextlib.redirect_stdout(io.StringIO()):
        ready, left = run()
    print("ready after the round trip:", ready, "still on the vehicle:", left)
    sys.exit(0 if ready == list("abcd") and not left else 1)
