"""D16 witness: in ReservablePriorityReqFilterStore every _trigger_reserve_get call serves at most the head of the
queue (because _do_reserve_get returns None).  With heterogeneous filters the request behind the head can already
be servable: queue [h0 (wants 'x'), h1 (wants 'y')], store holds y.  When x is put, h0 is granted - and h1, now
first in line with a matching un-reserved item available, stays pending (no-lost-wake-up property C04) until the
re-trigger timer of that put fires trigger_delay (here 5) time units later.
exit 1 = defect present (h1 still pending although y is available and un-reserved), exit 0 = h1 granted too."""
import io, sys, contextlib
import simpy
from factorysimpy.base.reservable_priority_req_filter_store import ReservablePriorityReqFilterStore


class It:
    def __init__(self, i): self.id = i
    def __repr__(self): return "It(%s)" % self.id


def run():
    env = simpy.Environment()
    st = ReservablePriorityReqFilterStore(env, capacity=4, trigger_delay=5)
    out = {}

    def proc():
        p = st.reserve_put(); yield p; st.put(p, It("y"))
        h0 = st.reserve_get(filter=lambda it: it.id == "x")
        h1 = st.reserve_get(filter=lambda it: it.id == "y")
        out["before"] = (h0.triggered, h1.triggered)
        p = st.reserve_put(); yield p; st.put(p, It("x"))
        yield env.timeout(1)
        out["after"] = (h0.triggered, h1.triggered)
        out["unreserved"] = [x.id for x in st.items[len(st.reserved_events):]]
    env.process(proc())
    for _ in range(2000):
        if env.peek() == float("inf"):
            break
        env.step()
    return out


if __name__ == "__main__":
    with contextlib.redirect_stdout(io.StringIO()):
        o = run()
    print(o)
    sys.exit(0 if o.get("after") == (True, True) else 1)
