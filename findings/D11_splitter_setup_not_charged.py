"""D11 witness: Splitter (same code in Combiner) with node_setup_time = 2.5, run until T = 10.25, finalise.
C17: the per-state totals add up to T with the set-up period charged to SETUP_STATE.
Before the fix the clock (stats["last_state_change_time"]) was None until the end of set-up: SETUP_STATE stayed 0.0,
the totals added up to T - 2.5, and a finalisation during set-up raised TypeError.
exit 1 = defect present, exit 0 = accounting correct."""
import io, sys, contextlib
import simpy
from factorysimpy.nodes.source import Source
from factorysimpy.nodes.splitter import Splitter
from factorysimpy.nodes.sink import Sink
from factorysimpy.edges.buffer import Buffer


def build():
    env = simpy.Environment()
    src = Source(env, "src", inter_arrival_time=1.0, blocking=True, flow_item_type="pallet")
    n = Splitter(env, "n", node_setup_time=2.5, processing_delay=0.5)
    snk = Sink(env, "snk")
    b1 = Buffer(env, "b1", capacity=2); b2 = Buffer(env, "b2", capacity=2)
    b1.connect(src, n); b2.connect(n, snk)
    return env, n


def run():
    out = {}
    env, n = build()
    env.run(until=10.25)
    n.update_final_state_time(10.25)
    tt = n.stats["total_time_spent_in_states"]
    out["totals"] = {k: round(v, 6) for k, v in tt.items()}
    out["sum"] = round(sum(tt.values()), 6)
    env, n = build()
    env.run(until=1.0)                       # still in set-up
    try:
        n.update_final_state_time(1.0)
        out["during_setup"] = round(sum(n.stats["total_time_spent_in_states"].values()), 6)
    except TypeError as e:
        out["during_setup"] = "TypeError"
    return out


if __name__ == "__main__":
    with contextlib.redirect_stdout(io.StringIO()):
        try:
            o = run()
        except Exception as e:      # noqa
            o = {"error": repr(e)}
    print(o)
    ok = o.get("sum") == 10.25 and o.get("totals", {}).get("SETUP_STATE") == 2.5 and o.get("during_setup") == 1.0
    sys.exit(0 if ok else 1)
