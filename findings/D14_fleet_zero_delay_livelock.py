"""D14 witness: FleetStore.fleet_activation_process never blocks when `delay` is 0: every loop iteration
creates timeout(0), any_of fires in the same instant, and nothing in the loop advances time.
A Fleet edge with delay=0 (the C14 quantifier says "zero included") makes run(until=T) spin for ever at t=0.
exit 1 = defect present (kernel makes 20000 steps without the clock advancing), exit 0 = time advances."""
import io, sys, contextlib
import simpy
from factorysimpy.base.fleet_store import FleetStore

env = simpy.Environment()
with contextlib.redirect_stdout(io.StringIO()):
    st = FleetStore(env, capacity=2, delay=0, transit_delay=1)
    steps = 0
    while steps < 20000 and env.peek() <= 5:
        env.step()
        steps += 1
print("kernel steps:", steps, "now:", env.now)
sys.exit(1 if (steps >= 20000 and env.now == 0) else 0)
