"""D12 witness: Machine.update_final_state_time(T) with T inside the set-up period raises TypeError
(stats['last_state_change_time'] is None until the set-up is over), although C17 quantifies over every end time.
exit 1 = defect present, exit 0 = totals add up to T."""
import io, sys, contextlib
import simpy
from factorysimpy.nodes.machine import Machine
from factorysimpy.nodes.node import Node
from factorysimpy.edges.buffer import Buffer


def run():
    env = simpy.Environment()
    m = Machine(env, "M", node_setup_time=5, processing_delay=1)
    a, b = Node(env, "A"), Node(env, "B")
    b1, b2 = Buffer(env, "B1"), Buffer(env, "B2")
    b1.connect(a, m); b2.connect(m, b)
    env.run(until=2)
    try:
        m.update_final_state_time(2)
    except Exception as e:      # noqa
        return repr(e)
    return sum(m.stats["total_time_spent_in_states"][k] for k in ("SETUP_STATE", "IDLE_STATE", "ATLEAST_ONE_PROCESSING_STATE", "ALL_ACTIVE_BLOCKED_STATE"))


if __name__ == "__main__":
    with contextlib.redirect_stdout(io.StringIO()):
        r = run()
    print(r)
    sys.exit(0 if r == 2 else 1)
