"""D10 witness: Machine.worker, non-blocking + FIRST_AVAILABLE: the out-edge actually used is not appended to
stats["out_edge_selection"], so the recorded selection history is not the routing that happened (C15).
exit 1 = defect present (items were pushed but the history is empty), exit 0 = one record per pushed item."""
import io, sys, contextlib
import simpy
from factorysimpy.nodes.machine import Machine
from factorysimpy.nodes.source import Source
from factorysimpy.nodes.sink import Sink
from factorysimpy.edges.buffer import Buffer


def run():
    env = simpy.Environment()
    src = Source(env, "SRC", inter_arrival_time=1, blocking=True)
    m = Machine(env, "M", processing_delay=0.5, blocking=False, out_edge_selection="FIRST_AVAILABLE")
    snk = Sink(env, "SNK")
    b1, b2 = Buffer(env, "B1", capacity=2), Buffer(env, "B2", capacity=2)
    b1.connect(src, m); b2.connect(m, snk)
    steps = 0
    while steps < 20000 and env.peek() <= 10:
        env.step(); steps += 1
    return m.stats["num_item_processed"], list(m.stats["out_edge_selection"])


if __name__ == "__main__":
    with contextlib.redirect_stdout(io.StringIO()):
        n, hist = run()
    print("items pushed:", n, "recorded out-edge selections:", hist)
    sys.exit(0 if n > 0 and len(hist) == n else 1)
