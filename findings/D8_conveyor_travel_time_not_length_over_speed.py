"""D8 witness: continuous ConveyorBelt, conveyor_length = 10, item_length = 3, speed = 1.
C12: if the destination takes every item as soon as it is offered, the travel time is exactly belt length / speed.
The constructor computes capacity = int(ceil(conveyor_length)/item_length) = 3 and put() uses
item_length*capacity/speed = 9 as the travel time: the item is offered after 9 time units instead of 10
(control: conveyor_length = 9 gives exactly 9).
exit 1 = defect present, exit 0 = travel time is conveyor_length/speed."""
import io, sys, contextlib
import simpy
from factorysimpy.edges.continuous_conveyor import ConveyorBelt


class It:
    def __init__(self, i, length):
        self.id = i; self.length = length


def travel(L, il, speed):
    env = simpy.Environment()
    cv = ConveyorBelt(env, "cv", conveyor_length=L, speed=speed, item_length=il, accumulating=1)
    cv.src_node = object(); cv.dest_node = object()
    out = {}

    def feeder():
        t = cv.reserve_put(); yield t
        out["t_in"] = env.now
        cv.put(t, It("a", il))

    def taker():
        g = cv.reserve_get(); yield g
        out["t_offered"] = env.now
        cv.get(g)
    env.process(feeder()); env.process(taker())
    for _ in range(20000):
        if not env._queue or env.peek() > 10 * L / speed + 10:
            break
        env.step()
    return out.get("t_offered", None) - out.get("t_in", 0) if "t_offered" in out else None


if __name__ == "__main__":
    with contextlib.redirect_stdout(io.StringIO()):
        try:
            a, b = travel(10, 3, 1), travel(9, 3, 1)
        except Exception as e:      # noqa
            a, b = repr(e), None
    print({"travel(L=10, item=3)": a, "travel(L=9, item=3)": b})
    sys.exit(0 if (a == 10 and b == 9) else 1)
