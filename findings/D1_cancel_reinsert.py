"""D1 witness: BufferStore/FleetStore/BeltStore.reserve_get_cancel re-inserts the released item at
len(ready_items)-len(reserved_events)-1 instead of directly behind the still-reserved block.
History: two items ready, both reserved, cancel the FIRST reservation, reserve again, get, get.
On the defective code the same item is booked twice and the second get raises ValueError
("Item ... not in ready_items"): C02 (a granted reservation's get must succeed) and C06 are violated.
exit 1 = defect present, exit 0 = behaves as the property demands."""
import sys
import simpy
from factorysimpy.base.buffer_store import BufferStore


class It:
    def __init__(self, i): self.id = i
    def __repr__(self): return "It(%s)" % self.id


def run():
    env = simpy.Environment()
    st = BufferStore(env, capacity=4, mode="FIFO")
    a, b = It("a"), It("b")
    out = {}

    def proc():
        p1 = st.reserve_put(); yield p1; st.put(p1, (a, 0))
        p2 = st.reserve_put(); yield p2; st.put(p2, (b, 0))
        yield env.timeout(1)
        g1 = st.reserve_get(); g2 = st.reserve_get()
        yield g1; yield g2
        st.reserve_get_cancel(g1)
        g3 = st.reserve_get()
        yield g3
        x = st.get(g2)
        try:
            y = st.get(g3)
        except Exception as e:      # noqa
            out["err"] = repr(e)
            return
        out["got"] = (x.id, y.id)
    env.process(proc())
    for _ in range(2000):
        if env.peek() == float("inf"):
            break
        env.step()
    return out


if __name__ == "__main__":
    o = run()
    print(o)
    sys.exit(0 if sorted(o.get("got", ())) == ["a", "b"] else 1)
