"""D5 witness: Source.behaviour, non-blocking + FIRST_AVAILABLE: the scan over the out-edges initialises
`out_edge_index_to_put` but tests `out_edge_to_put`.  With the only out-edge full when the first item is generated the
source process dies with UnboundLocalError; later, the stale edge of an earlier round is used and the non-blocking
source waits in BLOCKED_STATE instead of discarding.   exit 1 = defect present, exit 0 = items are discarded and counted."""
import io, sys, contextlib
import simpy
from factorysimpy.nodes.source import Source
from factorysimpy.nodes.node import Node
from factorysimpy.edges.buffer import Buffer


def run():
    env = simpy.Environment()
    src = Source(env, "SRC", inter_arrival_time=1, blocking=False, out_edge_selection="FIRST_AVAILABLE")
    buf = Buffer(env, "B", capacity=1, delay=0)
    dst = Node(env, "DST")
    buf.connect(src, dst)
    # occupy the single place before the source generates anything
    def occupy():
        t = buf.reserve_put(); yield t
    env.process(occupy())
    err = None
    steps = 0
    try:
        while steps < 20000 and env.peek() <= 5.5:
            env.step(); steps += 1
    except Exception as e:      # noqa
        err = repr(e)
    return err, src.stats["num_item_generated"], src.stats["num_item_discarded"], src.state


if __name__ == "__main__":
    with contextlib.redirect_stdout(io.StringIO()):
        r = run()
    print(r)
    err, gen, dis, state = r
    sys.exit(0 if err is None and gen == dis and gen >= 4 else 1)
