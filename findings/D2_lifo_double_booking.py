"""D2 witness: BufferStore in LIFO mode binds the j-th outstanding reservation to ready_items[-1-j].
An item that becomes ready between two reservations shifts the stack, so the second reservation is bound to
the item the first one already owns: one item is booked twice, another is never served, and the second
get raises ValueError.  History: a ready; reserve_get g1 (owns a); b becomes ready; reserve_get g2 (owns a
again); get(g1) -> a; get(g2) -> ValueError.   exit 1 = defect present, exit 0 = both gets succeed with
distinct items."""
import io, sys, contextlib
import simpy
from factorysimpy.base.buffer_store import BufferStore


class It:
    def __init__(self, i): self.id = i
    def __repr__(self): return "It(%s)" % self.id


def run():
    env = simpy.Environment()
    st = BufferStore(env, capacity=4, mode="LIFO")
    a, b = It("a"), It("b")
    out = {}

    def proc():
        p1 = st.reserve_put(); yield p1; st.put(p1, (a, 0))
        yield env.timeout(1)
        g1 = st.reserve_get(); yield g1
        p2 = st.reserve_put(); yield p2; st.put(p2, (b, 0))
        yield env.timeout(1)
        g2 = st.reserve_get(); yield g2
        out["bound"] = [repr(x) for x in st.reserved_items]
        try:
            x = st.get(g1); y = st.get(g2)
            out["got"] = sorted([x.id, y.id])
        except Exception as e:      # noqa
            out["err"] = repr(e)
    env.process(proc())
    for _ in range(2000):
        if env.peek() == float("inf"):
            break
        env.step()
    return out


if __name__ == "__main__":
    with contextlib.redirect_stdout(io.StringIO()):
        o = run()
    print(o)
    sys.exit(0 if o.get("got") == ["a", "b"] else 1)
