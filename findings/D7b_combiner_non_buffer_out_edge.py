"""D7b/D7c witness: Splitter and Combiner accept only a Buffer on their blocking FIRST_AVAILABLE push path
(ValueError 'Unsupported edge type' for a Fleet), and their _push_item passes `pe = yield put_token` (= None) as the
token on the conveyor path.  A valid model source -> buffer -> combiner -> fleet -> sink crashes (C20).
exit 1 = defect present, exit 0 = pallets reach the sink."""
import io, sys, contextlib
import simpy
from factorysimpy.nodes.source import Source
from factorysimpy.nodes.sink import Sink
from factorysimpy.nodes.combiner import Combiner
from factorysimpy.edges.buffer import Buffer
from factorysimpy.edges.fleet import Fleet


def run():
    env = simpy.Environment()
    sp = Source(env, "SP", flow_item_type="pallet", inter_arrival_time=2, blocking=True)
    si = Source(env, "SI", inter_arrival_time=1, blocking=True)
    cb = Combiner(env, "CB", target_quantity_of_each_item=[1, 1], processing_delay=0.5, blocking=True)
    snk = Sink(env, "SNK")
    b0, b1 = Buffer(env, "B0", capacity=2), Buffer(env, "B1", capacity=2)
    fl = Fleet(env, "FL", capacity=1, delay=1, transit_delay=0.5)
    b0.connect(sp, cb); b1.connect(si, cb); fl.connect(cb, snk)
    try:
        steps = 0
        while steps < 20000 and env.peek() <= 20:
            env.step(); steps += 1
    except Exception as e:      # noqa
        return repr(e)
    return snk.stats["num_item_received"]


if __name__ == "__main__":
    with contextlib.redirect_stdout(io.StringIO()):
        r = run()
    print(r)
    sys.exit(0 if isinstance(r, int) and r > 0 else 1)
