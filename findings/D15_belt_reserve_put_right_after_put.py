"""D15 witness: continuous BeltStore._do_reserve_put reads items[-1][0].total_interruption_time, which is only set
when the item's mover process STARTS (one kernel step after put).  A reserve_put issued right after a put, in the
same process step, raises AttributeError (reachable e.g. through a splitter unpacking a pallet onto a conveyor).
exit 1 = defect present, exit 0 = the request is simply queued or granted."""
import io, sys, contextlib
import simpy
from factorysimpy.base.belt_store import BeltStore


class It:
    def __init__(self, i):
        self.id = i; self.length = 1.0; self.conveyor_entry_time = 0.0
    def __repr__(self): return "It(%s)" % self.id


def run():
    env = simpy.Environment()
    st = BeltStore(env, capacity=4, speed=1)
    out = {}

    def proc():
        t = st.reserve_put(); yield t
        st.put(t, (It("a"), 4.0))
        try:
            st.reserve_put()                 # same process step: the mover of `a` has not started yet
            out["ok"] = True
        except Exception as e:               # noqa
            out["err"] = repr(e)
    env.process(proc())
    for _ in range(200):
        if env.peek() > 1:
            break
        env.step()
    return out


if __name__ == "__main__":
    with contextlib.redirect_stdout(io.StringIO()):
        o = run()
    print(o)
    sys.exit(0 if o.get("ok") else 1)
