"""D9 witness: the belt stores grant every space request while the belt is empty (and, more generally, they test the
spacing only against the last item that has already ENTERED, ignoring granted-but-unused reservations): two producers
that reserve in the same instant are both granted and both put at once, so two items enter the conveyor with zero
spacing (C12: successive items enter at least one item length of belt travel apart).
exit 1 = defect present (both items entered at the same time), exit 0 = entries at least length/speed apart."""
import io, sys, contextlib
import simpy
from factorysimpy.edges.continuous_conveyor import ConveyorBelt
from factorysimpy.nodes.node import Node


class It:
    def __init__(self, i): self.id = i; self.length = 1.0
    def __repr__(self): return "It(%s)" % self.id


def run():
    env = simpy.Environment()
    cv = ConveyorBelt(env, "CV", conveyor_length=4, speed=1, item_length=1, accumulating=1)
    a, b = Node(env, "A"), Node(env, "B")
    cv.connect(a, b)
    times = {}

    def producer(name):
        t = cv.reserve_put()
        yield t
        it = It(name)
        cv.put(t, it)
        times[name] = env.now
    env.process(producer("x")); env.process(producer("y"))
    steps = 0
    while steps < 5000 and env.peek() <= 3:
        env.step(); steps += 1
    return times


if __name__ == "__main__":
    with contextlib.redirect_stdout(io.StringIO()):
        try:
            t = run()
        except Exception as e:      # noqa
            t = repr(e)
    print(t)
    ok = isinstance(t, dict) and len(t) == 2 and abs(t["x"] - t["y"]) >= 1.0 - 1e-9
    sys.exit(0 if ok else 1)
