"""D6 witness: ConveyorBelt.can_put() / can_get() (continuous and slotted) read self.inp_buf / self.out_buf, attributes
that no constructor creates: every call raises AttributeError, so every non-blocking node feeding a conveyor crashes
(C09: a non-blocking node pushes if the out-edge has room, else discards; C20: valid models run).
exit 1 = defect present, exit 0 = all four probes answer with a boolean."""
import io, sys, contextlib
import simpy
from factorysimpy.edges.continuous_conveyor import ConveyorBelt as CC
from factorysimpy.edges.slotted_conveyor import ConveyorBelt as SC


def run():
    env = simpy.Environment()
    cc = CC(env, "CC", conveyor_length=4, speed=1, item_length=1, accumulating=1)
    sc = SC(env, "SC", capacity=4, delay=1, accumulating=1)
    out = []
    for obj in (cc, sc):
        for m in ("can_put", "can_get"):
            try:
                out.append(isinstance(getattr(obj, m)(), bool))
            except Exception as e:      # noqa
                out.append(repr(e))
    return out


if __name__ == "__main__":
    with contextlib.redirect_stdout(io.StringIO()):
        r = run()
    print(r)
    sys.exit(0 if all(x is True for x in r) else 1)
