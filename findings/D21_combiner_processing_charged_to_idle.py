"""D21 witness: Combiner with processing_delay = 3.0, one pallet source and one item source, run until T = 20.5.
C17: the time charged to the processing state equals the time the node actually spent processing.
Combiner.behaviour waits for the processing delay itself, *before* it creates the worker process and lists it in
worker_thread_list; check_thread_state_and_update_combiner_state() therefore sees no live worker and the whole
processing period is charged to IDLE_STATE: PROCESSING_STATE stays 0.0 although pallets were processed for 3.0 each.
exit 1 = defect present, exit 0 = processing time is charged to PROCESSING_STATE."""
import io, sys, contextlib
import simpy
from factorysimpy.nodes.source import Source
from factorysimpy.nodes.combiner import Combiner
from factorysimpy.nodes.sink import Sink
from factorysimpy.edges.buffer import Buffer


def run():
    env = simpy.Environment()
    sp = Source(env, "sp", inter_arrival_time=1.0, blocking=True, flow_item_type="pallet")
    si = Source(env, "si", inter_arrival_time=1.0, blocking=True, flow_item_type="item")
    n = Combiner(env, "n", node_setup_time=0, processing_delay=3.0, target_quantity_of_each_item=[1, 1])
    snk = Sink(env, "snk")
    b0 = Buffer(env, "b0", capacity=2); b1 = Buffer(env, "b1", capacity=2); b2 = Buffer(env, "b2", capacity=2)
    b0.connect(sp, n); b1.connect(si, n); b2.connect(n, snk)
    env.run(until=20.5)
    n.update_final_state_time(20.5)
    tt = n.stats["total_time_spent_in_states"]
    return {"totals": {k: round(v, 6) for k, v in tt.items()}, "processed": n.stats["num_item_processed"]}


if __name__ == "__main__":
    with contextlib.redirect_stdout(io.StringIO()):
        try:
            o = run()
        except Exception as e:      # noqa
            o = {"error": repr(e)}
    print(o)
    bad = "error" not in o and o["processed"] >= 3 and o["totals"]["PROCESSING_STATE"] < 3.0 * o["processed"] - 1e-9
    sys.exit(1 if bad else 0)
