"""D14b witness: FleetStore.fleet_activation_process re-arms the one-shot event activate_fleet only when it
finds items waiting.  When a put fills the fleet (activate_fleet.succeed()) and, in the same instant, a mover of
an earlier departure takes that item before the activation process is resumed, the process wakes up with
activate_fleet triggered and `items` empty, does not re-arm, and from then on any_of([...]) fires immediately
for ever: a zero-time livelock with delay > 0 (capacity 2, delay 1, transit_delay 2; four producers that reserve
first and put later, two consumers).  exit 1 = defect present (20000 kernel steps without the clock advancing),
exit 0 = the simulation reaches t = 40."""
import io, sys, contextlib
import simpy
from factorysimpy.base.fleet_store import FleetStore


class It:
    def __init__(self, i): self.id = i


def run():
    env = simpy.Environment()
    st = FleetStore(env, capacity=2, delay=1, transit_delay=2)

    def putter(k, t_reserve, t_put):
        w1 = env.timeout(t_reserve); w2 = env.timeout(t_put)
        yield w1
        p = st.reserve_put(); yield p
        yield w2
        st.put(p, It("x%d" % k))

    def getter(t):
        yield env.timeout(t)
        g = st.reserve_get(); yield g
        st.get(g)
    for k, (t1, t2) in enumerate([(0, 0.5), (3.5, 4.5), (6.5, 7.5), (0, 0.5)]):
        env.process(putter(k, t1, t2))
    for t in (0.0, 0.0):
        env.process(getter(t))
    last, same, steps = None, 0, 0
    while steps < 60000 and env.peek() <= 40:
        env.step(); steps += 1
        same = same + 1 if env.now == last else 0
        last = env.now
        if same >= 20000:
            return ("livelock", env.now, st.activate_fleet.triggered, len(st.items))
    return ("ok", env.now)


if __name__ == "__main__":
    with contextlib.redirect_stdout(io.StringIO()):
        r = run()
    print(r)
    sys.exit(1 if r[0] == "livelock" else 0)
