"""D7 witness: Sink.behaviour reserves on `edge.inbuiltstore`, which conveyor edges do not have: a model
source -> conveyor -> sink dies with AttributeError in the sink process at t=0 (C20: valid models must run).
exit 1 = defect present, exit 0 = the sink receives items."""
import io, sys, contextlib
import simpy
from factorysimpy.nodes.source import Source
from factorysimpy.nodes.sink import Sink
from factorysimpy.edges.continuous_conveyor import ConveyorBelt


def run():
    env = simpy.Environment()
    src = Source(env, "SRC", inter_arrival_time=2, blocking=True)
    snk = Sink(env, "SNK")
    cv = ConveyorBelt(env, "CV", conveyor_length=4, speed=1, item_length=1, accumulating=1)
    cv.connect(src, snk)
    try:
        steps = 0
        while steps < 20000 and env.peek() <= 30:
            env.step(); steps += 1
    except Exception as e:      # noqa
        return repr(e)
    return snk.stats["num_item_received"]


if __name__ == "__main__":
    with contextlib.redirect_stdout(io.StringIO()):
        r = run()
    print(r)
    sys.exit(0 if isinstance(r, int) and r > 0 else 1)
