"""D3 witness: ReservablePriorityReqFilterStore._do_reserve_get scans the un-reserved items for one that satisfies
the request's filter, but then binds the request positionally to the FIRST un-reserved item.
History: items [a, b]; reserve_get(filter: id == 'b') is granted; get returns a, which does not satisfy the filter.
exit 1 = defect present, exit 0 = the filtered retrieval receives b and a stays first in line."""
import io, sys, contextlib
import simpy
from factorysimpy.base.reservable_priority_req_filter_store import ReservablePriorityReqFilterStore


class It:
    def __init__(self, i): self.id = i
    def __repr__(self): return "It(%s)" % self.id


def run():
    env = simpy.Environment()
    st = ReservablePriorityReqFilterStore(env, capacity=4)
    out = {}

    def proc():
        for k in "ab":
            p = st.reserve_put(); yield p; st.put(p, It(k))
        g = st.reserve_get(filter=lambda x: x.id == "b")
        yield g
        out["got"] = st.get(g).id
        out["left"] = [x.id for x in st.items]
    env.process(proc())
    for _ in range(2000):
        if env.peek() == float("inf"):
            break
        env.step()
    return out


if __name__ == "__main__":
    with contextlib.redirect_stdout(io.StringIO()):
        o = run()
    print(o)
    sys.exit(0 if o.get("got") == "b" and o.get("left") == ["a"] else 1)
