"""Confirm every seeded change and record what the checks say about it.
usage: seedall.py <dir with <prop>/<m>/{patch.diff,demo.py,notes.md}> [prop/m ...]
For each change: scratch copy of /repo (never /repo itself) -> demo on unchanged code (must pass), apply patch, baseline
tests (must be 70 passed), demo with the change (must fail), the property's check with PYVC_REPO pointing at the scratch
copy.  Results go to /verif/seeded/<prop>_<m>/meta.json next to patch.diff and the demonstration."""
import json, os, re, shutil, subprocess, sys, tempfile, time
ROOT = os.path.dirname(os.path.dirname(os.path.abspath(__file__)))
TESTS = ["tests/test_conveyor.py", "tests/test_machine.py", "tests/test_reservable_priority_req_filter_store.py",
         "tests/test_reservable_priority_req_store.py"]


def run(cmd, cwd=None, env=None, timeout=1800):
    try:
        cp = subprocess.run(cmd, cwd=cwd, env=env, capture_output=True, text=True, timeout=timeout)
        return cp.returncode, cp.stdout + cp.stderr
    except subprocess.TimeoutExpired as e:
        return 124, "TIMEOUT"


def one(src, prop, m):
    d = os.path.join(src, prop, m)
    out = os.path.join(ROOT, "seeded", "%s_%s" % (prop, m))
    os.makedirs(out, exist_ok=True)
    for f in ("patch.diff", "demo.py", "notes.md"):
        if os.path.exists(os.path.join(d, f)):
            shutil.copy(os.path.join(d, f), os.path.join(out, f))
    meta = {"property": prop, "id": "%s_%s" % (prop, m), "source": "fresh sub-agent given only the property text and a scratch worktree"}
    notes = open(os.path.join(d, "notes.md")).read() if os.path.exists(os.path.join(d, "notes.md")) else ""
    meta["needs_to_manifest"] = notes[:1500]
    tmp = tempfile.mkdtemp(prefix="seed.")
    try:
        repo = os.path.join(tmp, "repo")
        shutil.copytree("/repo", repo, ignore=shutil.ignore_patterns(".git"))
        env = dict(os.environ, PYTHONPATH=os.path.join(repo, "src"))
        rc0, _ = run(["/venv/bin/python", os.path.join(out, "demo.py")], cwd=repo, env=env, timeout=300)
        meta["demo_on_unchanged_rc"] = rc0
        run(["git", "init", "-q", "."], cwd=repo)
        rca, o = run(["git", "apply", os.path.join(out, "patch.diff")], cwd=repo)
        meta["patch_applies_to_current_tree"] = (rca == 0)
        if rca != 0:
            meta["note"] = "patch does not apply to the current tree (the lines were changed by a later fix: commit): " + o[-300:]
            json.dump(meta, open(os.path.join(out, "meta.json"), "w"), indent=1)
            return meta
        rct, o = run(["/venv/bin/python", "-m", "pytest", "-q", "-p", "no:cacheprovider"] + TESTS, cwd=repo, env=env, timeout=1200)
        meta["tests_with_change"] = o.strip().splitlines()[-1] if o.strip() else ""
        rc1, o1 = run(["/venv/bin/python", os.path.join(out, "demo.py")], cwd=repo, env=env, timeout=300)
        meta["demo_with_change_rc"] = rc1
        meta["demo_with_change_tail"] = o1[-400:]
        t0 = time.time()
        env2 = dict(os.environ, PYVC_REPO=repo, VERIF_EVIDENCE_DIR=os.path.join(tmp, "ev"), VERIF_REPLAY_DIR=os.path.join(tmp, "rp"))
        rcc, oc = run(["python3-vt", os.path.join(ROOT, "checks", "check.py"), prop], cwd=ROOT, env=env2, timeout=2400)
        meta["check_cmd"] = "PYVC_REPO=<scratch copy with the change> python3-vt checks/check.py %s" % prop
        meta["check_rc"] = rcc
        meta["check_seconds"] = round(time.time() - t0, 1)
        lines = [l for l in oc.splitlines() if l.startswith(("VIOLATION", "UNDECIDED", "CHECKER", "VACUOUS", prop + ":"))]
        meta["check_output"] = [re.sub(r"replay=\S+", "replay=<scratch>", l)[:400] for l in lines[:12]]
        meta["detected"] = (rcc == 1)
        meta["confirmed"] = bool(rc0 == 0 and "70 passed" in meta["tests_with_change"] and rc1 not in (0,))
    finally:
        shutil.rmtree(tmp, ignore_errors=True)
    json.dump(meta, open(os.path.join(out, "meta.json"), "w"), indent=1)
    return meta


if __name__ == "__main__":
    src = sys.argv[1]
    todo = sys.argv[2:]
    if not todo:
        for p in sorted(os.listdir(src)):
            for m in sorted(os.listdir(os.path.join(src, p))):
                todo.append("%s/%s" % (p, m))
    for t in todo:
        p, m = t.split("/")
        r = one(src, p, m)
        print(t, "applies" if r.get("patch_applies_to_current_tree") else "NO-APPLY", "confirmed" if r.get("confirmed") else "unconfirmed",
              "rc=%s" % r.get("check_rc"), "DETECTED" if r.get("detected") else "missed", flush=True)
