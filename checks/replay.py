"""Native replay of a verifier counter-model against the REAL code (runs under /venv/bin/python with
PYTHONPATH=<repo>/src).  usage: replay.py <replay.json>

The counter-model is a state + a call.  The replayer builds a real store object, injects the model's entry state
(real simpy events, real item objects), makes the model's active process current, performs the real call, and then
  (a) compares the real exit state / result / exception with the exit state the verifier predicted for this input
      (a match means the verifier's path is the real behaviour, so the clause it refuted is false natively), and
  (b) evaluates the class invariant natively on the real exit state.
`replayed` is set when (a) matches or (b) finds a violation or the call raised an exception the contract forbids.
"""
import contextlib
import io
import json
import sys
import traceback

CLASSES = {
    "P": ("factorysimpy.base.reservable_priority_req_store", "ReservablePriorityReqStore"),
    "R": ("factorysimpy.base.reservable_req_store", "ReservableReqStore"),
    "F": ("factorysimpy.base.reservable_priority_req_filter_store", "ReservablePriorityReqFilterStore"),
    "B": ("factorysimpy.base.buffer_store", "BufferStore"),
    "L": ("factorysimpy.base.fleet_store", "FleetStore"),
    "S": ("factorysimpy.base.slotted_belt_store", "BeltStore"),
    "C": ("factorysimpy.base.belt_store", "BeltStore"),
}
EVLISTS = ("reserve_put_queue", "reservations_put", "reserve_get_queue", "reservations_get", "reserved_events")


class Obj:
    def __init__(self, kind, ident):
        self.kind, self.ident = kind, ident
        self.id = "%s%s" % (kind, ident)

    def __repr__(self):
        return "<%s %s>" % (self.kind, self.ident)


def main(path):
    rec = json.load(open(path))
    rec["replayed"] = False
    try:
        do_replay(rec)
    except Exception as e:
        rec["replay_note"] = "replayer error: %r" % (e,)
        rec["replay_trace"] = traceback.format_exc()[-1200:]
    json.dump(rec, open(path, "w"), indent=1)


def do_replay(rec):
    unit = rec["unit"]
    lib, rest = unit.split(":", 1)
    cls, fn = rest.split(".", 1)
    model = rec.get("model") or {}
    if lib in ("nodes", "edges") and fn == "__init__" and cls in INIT_CLASSES and isinstance(model.get("args"), dict):
        return replay_init(rec, cls, model["args"])
    if lib == "edges" and cls in ("Buffer", "Fleet") and fn in ("can_put", "can_get", "occupancy", "get_occupancy") \
            and model.get("entry"):
        return replay_edge_query(rec, cls, fn, model)
    if lib != "stores" or cls not in CLASSES or not model.get("entry"):
        rec["replay_note"] = "no native replayer for this unit"
        return
    if fn in ("move_to_ready_items", "fleet_activation_process", "_add_trigger_event", "__init__"):
        rec["replay_note"] = "process bodies / constructors are not replayed by state injection"
        return
    import importlib
    import simpy
    modname, cname = CLASSES[cls]
    K = getattr(importlib.import_module(modname), cname)
    entry = model["entry"]
    F = entry["fields"]
    heap = entry.get("heap", {})
    now = num(entry.get("now", 0))
    env = simpy.Environment(initial_time=now)
    cap = F.get("capacity")
    cap = float("inf") if cap == "inf" else cap
    out = io.StringIO()
    with contextlib.redirect_stdout(out):
        kwargs = {}
        if cls in ("B",):
            kwargs["mode"] = F.get("mode") if F.get("mode") in ("FIFO", "LIFO") else "LIFO"
        if cls == "L":
            kwargs.update(delay=num(F.get("delay", 1)), transit_delay=num(F.get("transit_delay", 0)))
        if cls == "F":
            kwargs["trigger_delay"] = num(F.get("trigger_delay", 0))
        st = K(env, capacity=cap, **kwargs)
    events, items, procs = {}, {}, {}

    def ev(i):
        if i not in events:
            e = simpy.Event(env)
            e.resourcename = st
            rp = heap.get("requesting_process", {}).get(str(i))
            e.requesting_process = proc(int(rp)) if rp is not None and rp.lstrip("-").isdigit() else None
            for attr in ("priority_to_put", "priority_to_get"):
                v = heap.get(attr, {}).get(str(i))
                setattr(e, attr, num(v) if v is not None else 0)
            if heap.get("triggered", {}).get(str(i)) == "True":
                e._ok = True
                e._value = None       # triggered (value set) without scheduling anything
            events[i] = e
        return events[i]

    def item(i):
        if i not in items:
            items[i] = Obj("item", i)
        return items[i]

    def proc(i):
        if i not in procs:
            procs[i] = Obj("proc", i)
        return procs[i]

    def conv(name, v):
        if name in EVLISTS:
            return [ev(x) for x in v]
        if name == "items":
            return [(item(x[0]), num(x[1])) if isinstance(x, list) else item(x) for x in v]
        if name in ("ready_items", "reserved_items"):
            return [item(x) for x in v]
        return v
    for name, v in F.items():
        if isinstance(v, list):
            setattr(st, name, conv(name, v))
        elif name == "capacity":
            pass
        elif name == "activate_fleet":
            st.activate_fleet = ev(v)
        elif name == "mode":
            pass
        elif isinstance(v, (int, float, str)) and not isinstance(v, bool):
            try:
                setattr(st, name, num(v))
            except Exception:
                pass
    env._active_proc = proc(entry.get("active_process", 0))
    args = []
    for k, v in (model.get("args") or {}).items():
        if k in ("put_event", "get_event", "event", "put_event_to_cancel", "get_event_to_cancel"):
            args.append(ev(v) if v is not None else None)
        elif k == "item":
            args.append((item(v[0]), num(v[1])) if isinstance(v, list) else item(v))
        elif k == "priority":
            args.append(num(v))
        elif k == "filter":
            args.append(None)
    native = {}
    pre_viol = set(x.split(":")[0] for x in native_invariant(st, cls, events))
    with contextlib.redirect_stdout(out):
        try:
            res = getattr(st, fn)(*args)
            native["result"] = describe(res, events, items)
        except Exception as e:
            native["exception"] = type(e).__name__
            native["exception_text"] = str(e)[:200]
    next_id = entry.get("next_id", 10 ** 6)
    fresh = [0]

    def ident(o):
        for d in (events, items):
            for k, v in d.items():
                if v is o:
                    return k
        if isinstance(o, simpy.Event):
            events[next_id + fresh[0]] = o
            fresh[0] += 1
            return next_id + fresh[0] - 1
        return repr(o)
    post = {}
    for name in list(F) + ["ready_items", "reserved_items"]:
        if not hasattr(st, name):
            continue
        v = getattr(st, name)
        if isinstance(v, list):
            post[name] = [[ident(x[0]), x[1]] if isinstance(x, tuple) else ident(x) for x in v]
        elif isinstance(v, (int, float)):
            post[name] = v
    native["exit_fields"] = post
    native["triggered"] = {str(k): bool(e.triggered) for k, e in events.items()}
    rec["native"] = native
    # (a) prediction
    pred = (model.get("exit") or {}).get("fields") or {}
    mism = []
    for name, v in pred.items():
        if isinstance(v, list) and name in post:
            if norm(v) != norm(post[name]):
                mism.append({"field": name, "predicted": v, "native": post[name]})
    kind = rec.get("kind")
    pred_exc = "raise-" in rec.get("obligation", "") or ".no-" in rec.get("obligation", "")
    rec["prediction_matches_native_exit_state"] = (not mism)
    rec["prediction_mismatches"] = mism[:6]
    # (b) native invariant
    viol = [x for x in native_invariant(st, cls, events) if x.split(":")[0] not in pre_viol]
    rec["native_invariant_violations"] = viol
    rec["native_invariant_already_false_at_entry"] = sorted(pre_viol)
    obl = rec.get("obligation", "")
    if ".no-" in obl and "@L" in obl:
        want = obl.split(".no-")[1].split("@")[0]
        if native.get("exception") == want:
            rec["replayed"] = True
            rec["replay_note"] = "the real call raised %s, which the contract forbids for this input" % want
            return
    if "unchanged" in obl and native.get("exception"):
        pre = {k: norm(v) for k, v in F.items() if isinstance(v, list)}
        chg = [k for k in pre if k in post and norm(post[k]) != pre[k]]
        if chg:
            rec["replayed"] = True
            rec["replay_note"] = "the real call raised %s but changed %s" % (native["exception"], chg)
            return
    if viol:
        rec["replayed"] = True
        rec["replay_note"] = "the real call leaves the store in a state violating: %s" % "; ".join(viol[:4])
        return
    if not mism and not (native.get("exception") and not pred_exc):
        rec["replayed"] = True
        rec["replay_note"] = ("the real call reaches exactly the exit state predicted by the verifier for this input; "
                              "the refuted clause is false in that state")
        return
    rec["replay_note"] = "native run did not reproduce the predicted exit state"


# ---------------------------------------------------------------------------------------------------------------
# constructors of nodes and edges: the counter-model is an argument tuple; build it natively, call the real
# constructor and judge the refuted clause on the real outcome
INIT_CLASSES = {
    "Node": ("factorysimpy.nodes.node", "Node"), "Source": ("factorysimpy.nodes.source", "Source"),
    "Machine": ("factorysimpy.nodes.machine", "Machine"), "Splitter": ("factorysimpy.nodes.splitter", "Splitter"),
    "Combiner": ("factorysimpy.nodes.combiner", "Combiner"), "Sink": ("factorysimpy.nodes.sink", "Sink"),
    "Edge": ("factorysimpy.edges.edge", "Edge"), "Buffer": ("factorysimpy.edges.buffer", "Buffer"),
    "Fleet": ("factorysimpy.edges.fleet", "Fleet"),
}


def native_arg(name, v):
    import itertools
    if isinstance(v, dict) and "dyn" in v:
        k = v["dyn"]
        if k == "none":
            return None
        if k == "int":
            return int(num(v.get("num", 0)))
        if k == "float":
            return float(num(v.get("num", 0)))
        if k == "bool":
            return bool(num(v.get("num", 0)))
        if k == "str":
            x = v.get("str")
            return x if isinstance(x, str) else "str%s" % x
        if k == "callable":
            return lambda *a, **kw: 1.0
        if k == "generator":
            return (x for x in itertools.repeat(1.0))
        return object()
    if isinstance(v, list):
        return [Obj("edge", x) for x in v]
    if isinstance(v, str) and name in ("flow_item_type", "mode"):
        return v
    if isinstance(v, (int, str)) and not isinstance(v, bool):
        try:
            x = num(v)
            return int(x) if float(x).is_integer() and "/" not in str(v) and "." not in str(v) else x
        except Exception:
            return v
    return v


def replay_init(rec, cls, margs):
    import importlib
    import inspect
    import simpy
    modname, cname = INIT_CLASSES[cls]
    K = getattr(importlib.import_module(modname), cname)
    env = simpy.Environment()
    kwargs = {}
    params = inspect.signature(K.__init__).parameters
    for k, v in margs.items():
        if k in ("env", "self") or k not in params:
            continue
        kwargs[k] = native_arg(k, v)
    shown = {k: (v if isinstance(v, (int, float, str, bool, type(None))) else repr(v)[:40]) for k, v in kwargs.items()}
    out = io.StringIO()
    obj, exc = None, None
    with contextlib.redirect_stdout(out):
        try:
            obj = K(env, **kwargs)
        except Exception as e:      # noqa
            exc = e
    name = rec["obligation"]
    rec["replay_stdout"] = "constructor call: %s(env, %s) -> %s" % (cname, ", ".join("%s=%r" % kv for kv in shown.items()),
                                                                     ("raised " + type(exc).__name__ + ": " + str(exc)[:120]) if exc else "constructed")
    failing = None
    if "must-raise" in name or "normal-requires" in name:
        failing = exc is None
        why = "the configuration the contract rejects was accepted by the real constructor"
    elif ".no-" in name or "allowed-when" in name:
        failing = exc is not None
        why = "the real constructor raised for a configuration the contract accepts"
    elif exc is None and ".post." in name:
        clause = name.split(".post.", 1)[1]
        failing, why = judge_init_post(obj, env, kwargs, clause)
    if failing is None:
        rec["replay_note"] = "constructor called natively; no native judge for this clause"
        return
    rec["replayed"] = bool(failing)
    rec["replay_note"] = (why if failing else "the real constructor does not show the failure for this argument tuple")


def judge_init_post(obj, env, kw, clause):
    st = getattr(obj, "stats", {}) or {}
    tt = st.get("total_time_spent_in_states", {})
    if clause.endswith("-recorded-as-given"):
        attr = clause[:-len("-recorded-as-given")].replace("-", "_")
        if attr in kw and hasattr(obj, attr):
            a, b = getattr(obj, attr), kw[attr]
            same = (a is b) if callable(b) or hasattr(b, "__next__") else (a == b and type(a) == type(b))
            return (not same), "attribute %s is %r but %r was given" % (attr, a, b)
        return None, ""
    if clause == "accounting-starts-at-zero":
        bad = []
        if any(v != 0 for v in tt.values()):
            bad.append("totals %r" % tt)
        if type(obj).__name__ in ("Splitter", "Combiner") and st.get("last_state_change_time") != env.now:
            bad.append("last_state_change_time is %r, construction time is %r" % (st.get("last_state_change_time"), env.now))
        return bool(bad), "; ".join(bad)
    if clause == "counters-start-at-zero":
        bad = [k for k in ("num_item_processed", "num_item_discarded", "num_item_generated", "num_item_received") if st.get(k, 0) != 0]
        return bool(bad), "counters not zero: %s" % bad
    if clause == "capacity-recorded":
        return getattr(obj, "capacity", None) != kw.get("capacity", 1), "capacity %r recorded for %r" % (getattr(obj, "capacity", None), kw.get("capacity"))
    if clause == "mode-recorded":
        return getattr(obj, "mode", None) != kw.get("mode", "FIFO"), "mode %r recorded" % getattr(obj, "mode", None)
    return None, ""


def replay_edge_query(rec, cls, fn, model):
    """Buffer / Fleet can_put, can_get, occupancy: build the real edge, inject the model's store state into its real
    store, call the query, and judge it by the C11 statement itself: can_x() is compared with whether a reserve_x()
    issued in the very same state is granted at once (the probe reservation is made on the same injected state)."""
    import importlib
    import simpy
    entry = model["entry"]
    F = {k[len("inbuiltstore."):]: v for k, v in entry["fields"].items() if k.startswith("inbuiltstore.")}
    heap = entry.get("heap", {})
    env = simpy.Environment(initial_time=num(entry.get("now", 0)))
    cap = F.get("capacity")
    if not isinstance(cap, int) or cap < 1:
        rec["replay_note"] = "model capacity %r cannot be built natively" % (cap,)
        return
    out = io.StringIO()
    with contextlib.redirect_stdout(out):
        if cls == "Buffer":
            K = importlib.import_module("factorysimpy.edges.buffer").Buffer
            mode = F.get("mode") if F.get("mode") in ("FIFO", "LIFO") else "LIFO"
            edge = K(env, "edge", capacity=cap, delay=0, mode=mode)
        else:
            K = importlib.import_module("factorysimpy.edges.fleet").Fleet
            edge = K(env, "edge", capacity=cap, delay=num(F.get("delay", 1)) or 1, transit_delay=num(F.get("transit_delay", 0)))
        edge.src_node, edge.dest_node = Obj("node", "src"), Obj("node", "dest")
    st = edge.inbuiltstore
    events, items = {}, {}

    def ev(i):
        if i not in events:
            e = simpy.Event(env)
            e.resourcename = st
            e.requesting_process = None
            for attr in ("priority_to_put", "priority_to_get"):
                v = heap.get(attr, {}).get(str(i))
                setattr(e, attr, num(v) if v is not None else 0)
            if heap.get("triggered", {}).get(str(i)) == "True":
                e._ok = True
                e._value = None
            events[i] = e
        return events[i]

    def item(i):
        if i not in items:
            items[i] = Obj("item", i)
        return items[i]
    for name, v in F.items():
        if not isinstance(v, list):
            continue
        if name in EVLISTS:
            setattr(st, name, [ev(x) for x in v])
        elif name == "items":
            setattr(st, name, [(item(x[0]), num(x[1])) if isinstance(x, list) else item(x) for x in v])
        elif name in ("ready_items", "reserved_items"):
            setattr(st, name, [item(x) for x in v])
    if "activate_fleet" in F and isinstance(F["activate_fleet"], int):
        st.activate_fleet = ev(F["activate_fleet"])
    native = {}
    with contextlib.redirect_stdout(out):
        try:
            ans = getattr(edge, fn)()
            native["answer"] = ans
            if fn in ("can_put", "can_get"):
                probe = st.reserve_put() if fn == "can_put" else st.reserve_get()
                native["probe_reservation_granted_at_once"] = bool(probe.triggered)
            else:
                native["true_occupancy"] = len(st.items) + len(getattr(st, "ready_items", []))
        except Exception as e:      # noqa
            native["exception"] = type(e).__name__ + ": " + str(e)[:120]
    rec["native"] = native
    if "exception" in native:
        rec["replayed"] = ".no-" in rec.get("obligation", "")
        rec["replay_note"] = "the real query raised " + native["exception"]
        return
    if fn in ("can_put", "can_get"):
        bad = bool(native["answer"]) != native["probe_reservation_granted_at_once"]
        rec["replayed"] = bad
        rec["replay_note"] = ("%s() answered %r but a reservation issued in the same state was %sgranted at once"
                              % (fn, native["answer"], "" if native["probe_reservation_granted_at_once"] else "NOT ")) if bad \
            else "the real query agrees with the probe reservation for this state"
    else:
        bad = native["answer"] != native["true_occupancy"]
        rec["replayed"] = bad
        rec["replay_note"] = "occupancy reported %r, items in transit + ready = %r" % (native["answer"], native["true_occupancy"])


def norm(v):
    return json.loads(json.dumps(v))


def num(v):
    if isinstance(v, (int, float)):
        return v
    if v is None:
        return 0
    s = str(v)
    try:
        if "/" in s:
            a, b = s.split("/")
            return float(a) / float(b)
        return float(s) if ("." in s or "e" in s) else int(s)
    except Exception:
        return 0


def describe(res, events, items):
    for d in (events, items):
        for k, v in d.items():
            if v is res:
                return k
    if isinstance(res, tuple):
        return [describe(x, events, items) for x in res]
    return res if isinstance(res, (int, float, bool, str, type(None))) else repr(res)


def native_invariant(st, cls, events):
    """the class invariant of contracts/stores.py, evaluated on the real object"""
    v = []
    held = len(st.items) + (len(st.ready_items) if hasattr(st, "ready_items") else 0)
    avail = len(st.ready_items) if hasattr(st, "ready_items") else len(st.items)
    if len(st.reservations_put) + held > st.capacity:
        v.append("I-cap: %d reservations + %d items > capacity %s" % (len(st.reservations_put), held, st.capacity))
    if list(st.reserved_events) != list(st.reservations_get):
        v.append("I-sync: reserved_events != reservations_get")
    if len(st.reservations_get) > avail:
        v.append("I-bind.count: more granted retrievals than available items")
    if hasattr(st, "reserved_items"):
        if len(st.reserved_items) != len(st.reserved_events):
            v.append("I-bind.len")
        ids = [id(x) for x in st.reserved_items]
        if len(set(ids)) != len(ids):
            v.append("I-bind.distinct: one item bound to two reservations")
        rd = [id(x) for x in st.ready_items]
        if any(i not in rd for i in ids):
            v.append("I-bind.member: a reserved item is not in ready_items")
        if getattr(st, "mode", "FIFO") == "FIFO" and ids != rd[:len(ids)]:
            v.append("I-bind.fifo: reserved items are not the oldest ready items in order")
    allev = []
    for nm in ("reserve_put_queue", "reservations_put", "reserve_get_queue", "reservations_get"):
        allev += [id(e) for e in getattr(st, nm)]
    if len(set(allev)) != len(allev):
        v.append("I-nodup: an event occurs twice in the reservation lists")
    if any(e.triggered for e in st.reserve_put_queue) or any(e.triggered for e in st.reserve_get_queue):
        v.append("I-trig: a waiting request is triggered")
    if any(not e.triggered for e in st.reservations_put) or any(not e.triggered for e in st.reservations_get):
        v.append("I-trig: a granted request is not triggered")
    if st.reserve_put_queue and len(st.reservations_put) + held < st.capacity and cls in ("P", "R", "F", "B", "L"):
        v.append("I-nlw-put: a space request waits although space is free")
    if st.reserve_get_queue and len(st.reservations_get) < avail and cls in ("P", "R", "B", "L"):
        v.append("I-nlw-get: a retrieval request waits although an un-reserved item is available")
    for nm, attr in (("reserve_put_queue", "priority_to_put"), ("reserve_get_queue", "priority_to_get")):
        q = getattr(st, nm)
        ps = [getattr(e, attr, 0) for e in q]
        if ps != sorted(ps):
            v.append("I-ord: %s is not sorted by priority" % nm)
    if hasattr(st, "_last_num_items") and st._last_num_items != held:
        v.append("I-avg.level: recorded level %s != true occupancy %s" % (st._last_num_items, held))
    return v


if __name__ == "__main__":
    main(sys.argv[1])
