"""placeholder native replayer (state injection) - filled in below"""
import json, sys
rec = json.load(open(sys.argv[1]))
rec["replayed"] = False
rec["replay_note"] = "native replayer not available for this unit"
json.dump(rec, open(sys.argv[1], "w"), indent=1)
