"""writes MANIFEST.json from the table below (run by hand after changing what is claimed)"""
import json, os
ROOT = os.path.dirname(os.path.dirname(os.path.abspath(__file__)))
props = [json.loads(l) for l in open(os.path.join(ROOT, "properties.jsonl"))]
CLAIMED = json.load(open(os.path.join(ROOT, "checks", "claims.json")))
checks = []
na = []
for p in props:
    pid = p["id"]
    c = CLAIMED.get(pid)
    if c is None or c.get("not_applicable"):
        na.append({"property_id": pid, "reason": (c or {}).get("not_applicable", "check not built yet (work in progress; see DESIGN.md section 10)")})
        continue
    checks.append({
        "property_id": pid,
        "quick_cmd": "python3-vt checks/check.py %s --tier quick" % pid,
        "thorough_cmd": "python3-vt checks/check.py %s --tier thorough" % pid,
        "evidence_file": "evidence/%s.json" % pid,
        "replay_cmd_template": "/venv/bin/python checks/replay.py {path}",
        "engine": "pyvc",
        "level_claimed": {"category": "proof", "text": c["text"], "design_ref": c.get("design_ref", "DESIGN.md section 5")},
        "level_note": c["note"],
        "technique": c.get("technique", "contract-based deductive verification: sidecar contracts on the real functions, "
                                         "VCs generated from the repository AST on every run, discharged by z3"),
    })
m = {
    "version": 1,
    "setup_cmd": "python3-vt checks/selftest.py --quick",
    "hooks": {"guard": "FACTORYSIMPY_VERIF", "enable": "no hooks: contracts, ghosts and replay live in the sidecar under /verif; nothing in /repo is instrumented",
              "baseline_off_cmd": "cd /repo && /venv/bin/python -m pytest -ra -q -p no:cacheprovider --timeout=900 --continue-on-collection-errors",
              "source_commits": [], "add_only": True},
    "engines": [{"name": "pyvc", "path": "pyvc/", "serves_properties": [c["property_id"] for c in checks],
                 "kind_free_text": "home-made deductive verifier: AST -> path-wise verification conditions over functional lists; z3 (E-matching, index-set instantiation, finite expansion with validated counter-models)"}],
    "checks": checks,
    "not_applicable": na,
    "notes": "Known findings (genuine defects recorded, not repaired) are listed in KNOWN_FINDINGS.txt with native witnesses under findings/. Exit codes: 0 held / 1 violation / 2 undecided / 3 checker crash.",
}
json.dump(m, open(os.path.join(ROOT, "MANIFEST.json"), "w"), indent=1)
print(len(checks), "claimed;", len(na), "not applicable")

# tags every unit generates on the current tree (fallback for units that a later change makes unsupported)
import sys, multiprocessing as mp
sys.path.insert(0, os.path.join(ROOT, "checks")); sys.path.insert(0, ROOT)
import units as U
if __name__ == "__main__":
    with mp.Pool(16, maxtasksperchild=8) as pool:
        dyn = pool.map(U.list_tags, U.all_units(), chunksize=4)
    json.dump({"%s:%s.%s" % u: t for u, t in dyn if t is not None}, open(os.path.join(ROOT, "checks", "unit_tags.json"), "w"), indent=0)
    print("unit_tags.json:", sum(1 for u, t in dyn if t is not None), "units")
