"""setup / engine self-test: tools present, the verifier proves a known-good unit and refutes a seeded break."""
import os, sys, subprocess, tempfile, shutil
ROOT = os.path.dirname(os.path.dirname(os.path.abspath(__file__)))
sys.path.insert(0, ROOT)
def main():
    import z3
    print("z3", z3.get_version_string())
    assert os.path.exists("/venv/bin/python"), "repository interpreter missing"
    sys.path.insert(0, os.path.join(ROOT, "checks"))
    import units as U
    r = U.run_unit(("stores", "R", "_do_reserve_put", 10000, True))
    ok = r.get("obligations") and all(o["status"] == "proved" for o in r["obligations"])
    print("known-good unit R._do_reserve_put:", "proved" if ok else "NOT PROVED")
    if not ok:
        return 1
    # seeded break on a scratch copy: '<' -> '<=' in the admission test must be refuted
    d = tempfile.mkdtemp(prefix="selftest.")
    try:
        shutil.copytree(os.path.join(os.environ.get("PYVC_REPO", "/repo"), "src"), os.path.join(d, "repo", "src"))
        p = os.path.join(d, "repo", "src", "factorysimpy", "base", "reservable_req_store.py")
        s = open(p).read()
        s2 = s.replace("if len(self.reservations_put) + len(self.items) < self.capacity:", "if len(self.reservations_put) + len(self.items) <= self.capacity:", 1)
        assert s2 != s
        open(p, "w").write(s2)
        cp = subprocess.run([sys.executable, "-c",
            "import sys; sys.path.insert(0,%r); sys.path.insert(0,%r); import units as U; r=U.run_unit(('stores','R','_do_reserve_put',10000,True)); print([o['status'] for o in r['obligations']])" % (ROOT, os.path.join(ROOT, "checks"))],
            env=dict(os.environ, PYVC_REPO=os.path.join(d, "repo")), capture_output=True, text=True)
        print("seeded break:", cp.stdout.strip()[-200:], cp.stderr[-300:])
        if "refuted" not in cp.stdout:
            return 1
    finally:
        shutil.rmtree(d, ignore_errors=True)
    return 0
sys.exit(main())
