"""writes seeded/SUMMARY.md from seeded/*/meta.json"""
import json, os, glob
ROOT = os.path.dirname(os.path.dirname(os.path.abspath(__file__)))
rows = []
for f in sorted(glob.glob(os.path.join(ROOT, "seeded", "*", "meta.json"))):
    m = json.load(open(f))
    d = os.path.dirname(f)
    notes = ""
    if os.path.exists(os.path.join(d, "notes.md")):
        notes = " ".join(open(os.path.join(d, "notes.md")).read().split())[:200]
    first = ""
    for l in m.get("check_output", []):
        if l.startswith("VIOLATION"):
            first = l.split("obligation=")[-1].split()[0]
            break
        if l.startswith("UNDECIDED") and not first:
            first = "undecided: " + l[10:120]
    if not m.get("patch_applies_to_current_tree", False):
        verdict = "n/a (patch overlaps a later fix: commit)"
    elif not m.get("confirmed"):
        verdict = "not confirmed (demo/tests)"
    elif m.get("detected"):
        verdict = "**caught**"
    elif m.get("check_rc") == 2:
        verdict = "undecided (exit 2)"
    else:
        verdict = "MISSED (exit 0)"
    rows.append((m["id"], m["property"], verdict, first, notes, m.get("check_seconds")))
with open(os.path.join(ROOT, "seeded", "SUMMARY.md"), "w") as fh:
    n = len(rows)
    caught = sum(1 for r in rows if r[2] == "**caught**")
    appl = sum(1 for r in rows if not r[2].startswith("n/a"))
    fh.write("# Seeded changes\n\n%d changes, %d applicable to the current tree, %d caught by the property's check "
             "(exit 1 with a VIOLATION line naming the failed obligation).\n\n" % (n, appl, caught))
    fh.write("| change | verdict of `check.py <property>` on the changed tree | first failed obligation | what was changed |\n|---|---|---|---|\n")
    for r in rows:
        fh.write("| %s | %s | `%s` | %s |\n" % (r[0], r[2], r[3], r[4].replace("|", "/")))
print("wrote", n, "rows")
