#!/bin/bash
# usage: seedeval.sh <dir with patch.diff demo.py> <property> [extra check.py args]
# Applies the seeded change to a scratch copy of /repo (never to /repo itself), then
#  (1) runs the baseline tests, (2) runs the demo with and without the change, (3) runs the property check.
DIR=$1; PROP=$2; shift; shift
D=$(mktemp -d /tmp/seed.XXXXXX)
cp -r /repo $D/repo
cd $D/repo && rm -rf .git && git init -q . >/dev/null 2>&1
echo "== demo on unchanged code"; ( cd $D/repo && PYTHONPATH=$D/repo/src timeout 180 /venv/bin/python $DIR/demo.py >/dev/null 2>&1; echo "   demo rc=$?" )
if ! git apply $DIR/patch.diff 2>/dev/null; then echo "PATCH DOES NOT APPLY"; git apply $DIR/patch.diff; rm -rf $D; exit 9; fi
echo "== tests with the change"; ( cd $D/repo && PYTHONPATH=$D/repo/src timeout 900 /venv/bin/python -m pytest -q -p no:cacheprovider tests/test_conveyor.py tests/test_machine.py tests/test_reservable_priority_req_filter_store.py tests/test_reservable_priority_req_store.py 2>&1 | tail -1 )
echo "== demo with the change"; ( cd $D/repo && PYTHONPATH=$D/repo/src timeout 180 /venv/bin/python $DIR/demo.py >/dev/null 2>&1; echo "   demo rc=$?" )
echo "== check $PROP with the change"
( cd /verif && VERIF_EVIDENCE_DIR=$D/evidence VERIF_REPLAY_DIR=$D/replays PYVC_REPO=$D/repo python3-vt checks/check.py $PROP "$@" 2>&1 | cut -c1-400 | tail -6; echo "   check rc=${PIPESTATUS[0]}" )
rm -rf $D
