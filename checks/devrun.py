"""development driver: verify selected functions and print results"""
import sys, os, json, time
sys.path.insert(0, os.path.dirname(os.path.dirname(os.path.abspath(__file__))))
from pyvc import extract
from pyvc.contract import verify_function
from contracts.stores import StoreLib, PROFILES

def main():
    cls = sys.argv[1]
    fns = sys.argv[2:]
    if ":" in cls:
        libname, cls = cls.split(":")
        sys.path.insert(0, os.path.join(os.path.dirname(os.path.abspath(__file__))))
        import units as U
        lib = U.get_lib(libname)
    else:
        lib = StoreLib()
    prof = lib.profile(cls)
    ex = extract.load(prof["file"])
    for fn in fns or sorted(lib.contracts[cls]):
        con = lib.contracts[cls][fn]
        src = getattr(con, "source", None)
        node = extract.load(src[0]).function(src[1], fn) if src else ex.function(prof["cls"], fn)
        r = verify_function(lib, cls, fn, node, con)
        print("== %s.%s  paths=%d (normal %d, exc %d) cover=%s  %.2fs checks=%d" % (cls, fn, r.paths, r.normal_paths, r.exc_paths, r.cover, r.seconds, r.solver_checks))
        if r.unsupported:
            print("   UNSUPPORTED:", r.unsupported)
        bad = 0
        for o in r.obligations:
            if o["status"] != "proved":
                bad += 1
                print("   %-9s %s  L%s %s %s" % (o["status"], o["name"], o["lineno"], o.get("trace"), o.get("reason")))
                if "model" in o and os.environ.get("SHOW_MODEL"):
                    print("      ", json.dumps(o["model"])[:1500])
        print("   %d obligations, %d not proved" % (len(r.obligations), bad))
main()
