#!/bin/bash
# usage: mutrun.sh <patch.diff> <cls> [functions...]   -- run devrun on a scratch copy with the patch applied
set -e
PATCH=$1; shift
D=$(mktemp -d /tmp/scratch.XXXXXX)
mkdir -p $D/repo
cp -r /repo/src $D/repo/src
( cd $D/repo && git init -q . && git apply --unsafe-paths $PATCH ) 
PYVC_REPO=$D/repo python3-vt /verif/checks/devrun.py "$@" 
rm -rf $D
