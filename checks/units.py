"""registry of verification units: (library, class/profile, function) -> worker that returns JSON-able results."""
import json
import os
import sys
import time
import traceback

ROOT = os.path.dirname(os.path.dirname(os.path.abspath(__file__)))
sys.path.insert(0, ROOT)

_LIBS = {}


def get_lib(name):
    if name not in _LIBS:
        if name == "stores":
            from contracts.stores import StoreLib
            _LIBS[name] = StoreLib()
        else:
            mod = __import__("contracts." + name, fromlist=["make_lib"])
            _LIBS[name] = mod.make_lib()
    return _LIBS[name]


def all_units():
    """-> list of (libname, cls, fname)"""
    out = []
    from contracts.stores import PROFILES
    lib = get_lib("stores")
    for cls in PROFILES:
        if cls not in lib.enabled_classes():
            continue
        for fn in sorted(lib.contracts[cls]):
            if getattr(lib.contracts[cls][fn], "assumed", False):
                continue
            out.append(("stores", cls, fn))
    flib = get_lib("frame")
    for rel in sorted(flib.contracts["package"]):
        out.append(("frame", "package", rel))
    for name in ("edges", "conveyors", "qstore", "nodes"):
        if not os.path.exists(os.path.join(ROOT, "contracts", name + ".py")):
            continue
        lib = get_lib(name)
        for cls in lib.classes():
            for fn in sorted(lib.contracts[cls]):
                if getattr(lib.contracts[cls][fn], "assumed", False):
                    continue
                out.append((name, cls, fn))
    return out


HEAVY = ("cancel", "_trigger_reserve", "move_to_ready_items", "fleet_activation_process", "reserve_get", "reserve_put",
         "behaviour", "worker")


def shards_for(unit):
    lib = get_lib(unit[0])
    n = getattr(lib, "shards", lambda cls, fn: None)(unit[1], unit[2])
    if n:
        return n
    return 4 if any(h in unit[2] for h in HEAVY) else 1


def assumed_contracts():
    """contracts that are used by callers but whose bodies are NOT verified (reported in every evidence file)"""
    out = []
    for name in ("stores", "edges", "conveyors", "qstore", "nodes"):
        lib = get_lib(name)
        for cls, cs in lib.contracts.items():
            for fn, con in cs.items():
                if con is None:
                    continue
                if getattr(con, "assumed", False):
                    out.append("%s:%s.%s" % (name, cls, fn))
    return sorted(out) + INLINE_MODELS


# models written directly into a library (no FnContract object, so the scan above cannot see them); their bodies are
# NOT verified against these models
INLINE_MODELS = [
    "nodes: the abstract edge interface seen by node bodies (reserve_put/reserve_get return a fresh token of that edge; "
    "put/get/cancel consume a granted own token; can_put/can_get answer from a per-segment oracle and agree with a reservation "
    "issued in the same segment): proved for Buffer and Fleet by the edges library (C11), assumed for the conveyor edges",
    "nodes: the inline model of Item(...) / Pallet(...) used by the node bodies (a fresh object, flow_item_type set, time stamps "
    "None) is the postcondition of the constructor contracts, which are verified units (nodes:Item.__init__, "
    "nodes:Pallet.__init__, nodes:BaseFlowItem.__init__); that the inline model and those contracts say the same is by inspection",
    "SimPy: Environment, Event, Timeout, AnyOf, Process, Interrupt, Resource, Store.__init__ (K-contracts, see trusted_base)",
]


def unit_props(unit):
    lib = get_lib(unit[0])
    return lib.unit_props(unit[1], unit[2])


def list_tags(unit):
    """worker: property tags of the obligations this unit actually generates (symbolic execution only, nothing is
    decided).  Used to select the units of a property: a unit belongs to every property one of its obligations is
    tagged with, so no obligation is left without a check that decides it."""
    if unit[0] == "frame":
        return (unit, None)
    os.environ["PYVC_LIST_ONLY"] = "1"
    try:
        from pyvc import extract, logic
        from pyvc.contract import verify_function
        logic.reset_names()
        lib = get_lib(unit[0])
        cls, fn = unit[1], unit[2]
        con = lib.contracts[cls][fn]
        prof = lib.profile(cls)
        src = getattr(con, "source", None)
        node = extract.load(src[0]).function(src[1], fn) if src else extract.load(prof["file"]).function(prof["cls"], fn)
        res = verify_function(lib, cls, fn, node, con)
        if res.unsupported:
            return (unit, _last_known_tags(unit))
        tags = set()
        for o in res.obligations:
            if o.get("kind") != "canary":
                tags |= set(o.get("props", []))
        return (unit, sorted(tags))
    except Exception:
        return (unit, _last_known_tags(unit))
    finally:
        os.environ.pop("PYVC_LIST_ONLY", None)


_TAGS = {}


def _last_known_tags(unit):
    """a unit that can no longer be executed (unsupported construct after a change) keeps the tags it generated on the
    tree the tag file was written from (checks/unit_tags.json, rewritten by mkmanifest.py): it stays a unit of those
    properties and makes their checks undecided instead of silently dropping out"""
    if not _TAGS:
        try:
            _TAGS.update(json.load(open(os.path.join(ROOT, "checks", "unit_tags.json"))))
        except Exception:
            _TAGS["__none__"] = []
    return _TAGS.get("%s:%s.%s" % unit)


def run_unit(arg):
    """worker: verify one unit.  arg = (libname, cls, fname, timeout_ms, want_models)"""
    libname, cls, fname, timeout_ms, want_models = arg[:5]
    if libname == "frame":
        from contracts.frame import run_frame_unit
        return run_frame_unit(fname)
    shard = arg[5] if len(arg) > 5 else None
    carve = arg[6] if len(arg) > 6 else None
    only_prop = arg[7] if len(arg) > 7 else None
    t0 = time.time()
    from pyvc import extract
    from pyvc.contract import verify_function
    out = {"unit": "%s:%s.%s" % (libname, cls, fname), "lib": libname, "cls": cls, "fn": fname}
    try:
        from pyvc import logic
        logic.reset_names()
        for k in logic.CVC5:
            logic.CVC5[k] = 0
        lib = get_lib(libname)
        prof = lib.profile(cls)
        exf = extract.load(prof["file"])
        out["file"] = prof["file"]
        out["sha"] = exf.sha
        out["repo_class"] = prof["cls"]
        con = lib.contracts[cls][fname]
        src = getattr(con, "source", None)
        if src:
            exf = extract.load(src[0])
            out["file"] = src[0]
            out["sha"] = exf.sha
            node = exf.function(src[1], fname)
        else:
            node = exf.function(prof["cls"], fname)
        bad_prints = [x for x in exf.unsupported_prints if node.lineno <= x[0] <= getattr(node, "end_lineno", 10 ** 9)]
        if bad_prints:
            out["unsupported"] = "call inside a dropped print of this function is not on the whitelist: %r" % (bad_prints,)
            out["obligations"] = []
            return out
        r = verify_function(lib, cls, fname, node, con, timeout_ms=timeout_ms, want_models=want_models, shard=shard,
                            carve=carve, only_prop=only_prop)
        out["shard"] = list(shard) if shard else None
        out["unsupported"] = r.unsupported
        out["obligations"] = r.obligations
        out["paths"] = r.paths
        out["normal_paths"] = r.normal_paths
        out["exc_paths"] = r.exc_paths
        out["cover"] = r.cover
        out["lineno"] = r.lineno
        out["dropped"] = [d for d in exf.dropped if node.lineno <= d["line"] <= getattr(node, "end_lineno", 10 ** 9)]
    except KeyError as e:
        out["unsupported"] = "function or class missing in the repository: %s" % e
        out["obligations"] = []
    except Exception as e:
        out["crash"] = "%s: %s\n%s" % (type(e).__name__, e, traceback.format_exc()[-1500:])
        out["obligations"] = []
    out["seconds"] = round(time.time() - t0, 3)
    try:
        from pyvc import logic
        out["cvc5"] = dict(logic.CVC5)
    except Exception:
        pass
    return out
