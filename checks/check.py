#!/usr/bin/env python3
"""check.py <property id> [--tier quick|thorough]

Decides one property on /repo's current working tree:
  * every verification unit (function under contract) that carries an obligation of the property is
    extracted from the real source and verified function by function (pyvc, z3),
  * exit 0: every obligation of the property was discharged (known findings are printed, see
    KNOWN_FINDINGS.txt), exit 1: at least one obligation was refuted (VIOLATION line, replay file),
    exit 2: undecided (unknown / unsupported construct / solver timeout), exit 3: checker crash.
Evidence is written to evidence/<id>.json on every run.
"""
import argparse
import json
import multiprocessing as mp
import os
import re
import subprocess
import sys
import time

ROOT = os.path.dirname(os.path.dirname(os.path.abspath(__file__)))
sys.path.insert(0, ROOT)
sys.path.insert(0, os.path.join(ROOT, "checks"))

import units as U   # noqa

TRUSTED_BASE = [
    "pyvc itself (hand-written AST->VC semantics of the Python subset; cross-checked by seeded mutants and the "
    "CPython differential replay, not proved)",
    "z3 4.x/5.1 (SMT solver) for every verdict",
    "K-contracts on SimPy 4.1.2 (assumed): Event.succeed raises iff already triggered and sets triggered; "
    "env.timeout(d) needs d>=0 and fires at now+d; a process runs atomically between two yields; env.process "
    "starts the generator later in the same instant; Store.__init__ rejects capacity<=0",
    "A-float: machine floats treated as mathematical reals; ints are unbounded (exact for Python)",
    "A-sort: list.sort is a stable sort",
    "A-assert: Python not run with -O",
    "A-distinct: an object is not put again into an explicit-binding store while it is still inside it",
    "A-cap-int: capacity is a positive integer or float('inf')",
    "K-interrupt (assumed, SimPy): a process waiting for a timer of r is resumed either after exactly r or, with "
    "simpy.Interrupt raised at the yield, after some 0<=e<=r; A-no-nested-interrupt: a belt mover waiting for the "
    "resume signal is not interrupted again (unchecked: which mover the planner interrupts and when is not under contract)",
    "K-interrupt-call (assumed, SimPy): Process.interrupt(cause) on a process taken from a bookkeeping dictionary raises "
    "RuntimeError or schedules an interruption; it runs no user code in the calling segment and touches no store field",
    "A-planner-delay: _delayed_interrupt(item_id, delay, reason) requires delay >= 0; the requirement is an obligation where "
    "the delay is a modelled number and ASSUMED where it comes out of the assumed pattern analysis (continuous store: "
    "handle_new_item_during_interruption, _execute_interruption_plan -- the code guards both with `if delay > 0`)",
    "opaque truthiness: a value outside the model is truthy or falsy without constraint (both branches are verified)",
    "A-bookkeeping: the belt stores' dictionaries active_move_processes / active_delayed_interrupt_processes are "
    "outside the modelled state (membership unconstrained; del/lookup assumed not to raise)",
    "A-rearm: at ConveyorBelt.put/get of the continuous conveyor its one-shot events item_arrival_event, "
    "put_events_available, get_events_available are untriggered (re-armed by behaviour(), which is not under contract)",
    "A-foreign: 'foreign to a store' is a rigid property of an event identity fixed at allocation: events allocated by "
    "a conveyor edge are foreign to its belt store, events allocated by the store are not",
    "A-item-length: items put on the continuous conveyor have the conveyor's item_length",
    "ML-0 (paper): an invariant established by __init__ and preserved by every public method and every process "
    "segment from an arbitrary invariant state holds in every reachable state; relies on the frame obligation "
    "(no code outside a store class mutates its lists)",
]

DROPPED = ["print(...) statements (and the f-strings/calls inside them)", "docstrings and bare string statements",
           "import statements and module-level code other than def/class", "comments"]


# a property whose statement builds on another one also decides that one's obligations on the units it shares
INCLUDES = {"C10": ("C04",), "C03": ("C02",)}


def relevant(prop, props):
    return prop in props or any(p in props for p in INCLUDES.get(prop, ()))


def norm_name(n):
    n = re.sub(r"exit\d+\.", "", n)
    n = re.sub(r"@L\d+", "", n)
    return n


def load_known():
    path = os.path.join(ROOT, "KNOWN_FINDINGS.txt")
    out = []
    if not os.path.exists(path):
        return out
    for line in open(path):
        line = line.strip()
        if not line.startswith("finding:"):
            continue
        head, _, text = line[len("finding:"):].partition("::")
        kv = dict(x.split("=", 1) for x in head.split())
        kv["text"] = text.strip()
        kv["properties"] = kv.get("property", "").split(",")
        out.append(kv)
    return out


def carve_for(known, unit):
    """{normalised obligation name: chi}  for one unit"""
    u = "%s:%s.%s" % unit
    out = {}
    for k in known:
        ob = k.get("obligation", "")
        if ob.startswith(u + "/"):
            out[ob[len(u) + 1:]] = k.get("chi", "always")
    return out


_witness_cache = {}


def run_witness(script):
    """native witness of a known finding: exit 1 = the defect is (still) present in /repo"""
    if script in _witness_cache:
        return _witness_cache[script]
    repo = os.environ.get("PYVC_REPO", "/repo")
    try:
        cp = subprocess.run(["/venv/bin/python", os.path.join(ROOT, script)], capture_output=True, text=True,
                            timeout=180, env=dict(os.environ, PYTHONPATH=os.path.join(repo, "src")))
        r = (cp.returncode, (cp.stdout + cp.stderr)[-600:])
    except Exception as e:
        r = (99, repr(e))
    _witness_cache[script] = r
    return r


def main():
    ap = argparse.ArgumentParser()
    ap.add_argument("prop")
    ap.add_argument("--tier", default=os.environ.get("VERIF_TIER", "quick"))
    ap.add_argument("--jobs", type=int, default=min(16, os.cpu_count() or 4))
    ap.add_argument("--only", default=None, help="restrict to units whose name contains this (debugging)")
    args = ap.parse_args()
    prop = args.prop
    tier = args.tier if args.tier in ("quick", "thorough") else "quick"
    seed = int(os.environ.get("VERIF_SEED", "0") or 0)
    t0 = time.time()
    timeout_ms = 10000 if tier == "quick" else 60000
    if tier == "thorough":
        os.environ["PYVC_CVC5"] = "1"       # every unsat query is re-decided by cvc5 from its SMT-LIB export
    try:
        # a unit belongs to the property if its contract says so or if one of the obligations it generates is tagged
        # with it (cheap pass: symbolic execution only)
        every = U.all_units()
        with mp.Pool(args.jobs, maxtasksperchild=8) as pool:
            dyn = dict(pool.map(U.list_tags, every, chunksize=4))
        units = [u for u in every if relevant(prop, set(U.unit_props(u)) | set(dyn.get(u) or ()))]
        if args.only:
            units = [u for u in units if args.only in "%s:%s.%s" % u]
        if not units:
            print("no verification unit carries property %s" % prop)
            return 3
        all_known = load_known()
        tasks = []
        for u in units:
            n = U.shards_for(u)
            cv = carve_for(all_known, u)
            if n <= 1:
                tasks.append((u[0], u[1], u[2], timeout_ms, True, None, cv, (prop,) + INCLUDES.get(prop, ())))
            else:
                tasks.extend((u[0], u[1], u[2], timeout_ms, True, (i, n), cv, (prop,) + INCLUDES.get(prop, ())) for i in range(n))
        # longest first
        with mp.Pool(args.jobs, maxtasksperchild=1) as pool:
            shard_results = pool.map(U.run_unit, tasks, chunksize=1)
        results = merge_shards(shard_results)
    except Exception as e:
        import traceback
        traceback.print_exc()
        return 3
    known = [k for k in all_known if relevant(prop, k["properties"])]
    total = discharged = 0
    refuted = []
    undecided = []
    crashed = []
    functions = []
    solver_s = 0.0
    samples = []
    vacuous = []
    carved = []
    cvc5 = {"agree": 0, "unknown": 0, "disagree": 0, "seconds": 0.0}
    for r in results:
        for k, v in (r.get("cvc5") or {}).items():
            cvc5[k] = cvc5.get(k, 0) + v
        if r.get("crash"):
            crashed.append(r)
            continue
        if r.get("unsupported"):
            undecided.append((r["unit"], "UNSUPPORTED", r["unsupported"]))
        nrel = 0
        for o in r["obligations"]:
            if o["kind"] == "canary":
                if o["status"] != "proved":
                    vacuous.append(r["unit"])
                continue
            if not relevant(prop, o["props"]):
                continue
            nrel += 1
            total += 1
            solver_s += o["seconds"]
            if o["status"] == "carved":
                # known finding: holds outside its characteristic condition; inside it the finding is recorded
                total -= 1
                carved.append((r, o))
            elif o["status"] == "proved":
                discharged += 1
                if len(samples) < 4 and o["kind"] in ("post", "inv"):
                    samples.append({"unit": r["unit"], "obligation": o["name"], "kind": o["kind"],
                                    "line": o["lineno"], "status": "proved", "path": o.get("trace")})
            elif o["status"] == "refuted" and ".auto." in o["name"]:
                # a mechanically derived loop invariant that does not hold: the derivation was too weak, not the code wrong
                undecided.append((r["unit"], o["name"], "derived scan invariant not inductive"))
            elif o["status"] == "refuted":
                refuted.append((r, o))
            else:
                undecided.append((r["unit"], o["name"], o.get("reason", "")))
        if r.get("cover") == "UNSAT":
            vacuous.append(r["unit"] + " (contradictory precondition)")
        functions.append({"unit": r["unit"], "file": r.get("file"), "sha": r.get("sha"), "line": r.get("lineno"),
                          "paths": r.get("paths"), "obligations_of_property": nrel, "seconds": r.get("seconds")})
    # known findings / violations
    violations = []
    known_hits = []
    for r, o in refuted:
        violations.append((r, o))
    out_lines = []
    rc = 0
    seen_known = set()
    by_key = {}
    for r, o in carved:
        key = "%s/%s" % (r["unit"], norm_name(o["name"]))
        by_key.setdefault(key, []).append((r, o))
    for key, lst in sorted(by_key.items()):
        hit = None
        for k in all_known:
            if k.get("obligation") == key:
                hit = k
        if hit is None:
            continue
        failing = [(r, o) for r, o in lst if o.get("inside_chi") != "proved"]
        if not failing:
            out_lines.append("NOTE: known finding no longer reproduces in the verifier: %s" % key)
            continue
        r, o = failing[0]
        wrc, wout = run_witness(hit["witness"]) if hit.get("witness") else (1, "")
        if wrc == 1:
            seen_known.add(key)
            known_hits.append((hit, r, o))
            out_lines.append("KNOWN-FINDING: property=%s %s [chi=%s; verifier: %s inside chi; native witness %s still fails] :: %s"
                             % (prop, key, hit.get("chi", "always"), o.get("inside_chi"), hit.get("witness"), hit["text"]))
        elif any(o2.get("inside_chi") == "refuted" for _, o2 in failing):
            # the recorded history no longer fails natively but the obligation still does: not the known finding
            violations.append(([x for x in failing if x[1].get("inside_chi") == "refuted"][0]))
        else:
            # witness gone and the verifier has not decided the obligation inside chi: undecided, not a violation
            undecided.append((r["unit"], o["name"], "known-finding witness no longer fails; obligation not decided inside chi=%s"
                              % hit.get("chi", "always")))
    replay_files = []
    for r, o in violations:
        path = write_replay(prop, r, o)
        replay_files.append(path)
        tail = ""
        rp = json.load(open(path))
        if not rp.get("replayed"):
            tail = " no-failing-input-found"
        out_lines.append("VIOLATION property=%s replay=%s obligation=%s/%s%s" % (prop, path, r["unit"], o["name"], tail))
        rc = 1
    if crashed:
        for r in crashed:
            out_lines.append("CHECKER-CRASH unit=%s %s" % (r["unit"], r["crash"].splitlines()[0]))
        if rc == 0:
            rc = 3
    if rc == 0 and (undecided or vacuous):
        rc = 2
    for u in undecided[:20]:
        out_lines.append("UNDECIDED %s %s %s" % u)
    for v in vacuous:
        out_lines.append("VACUOUS %s" % v)
    expected = load_expected().get(prop)
    if rc == 0 and expected is not None and total < expected:
        out_lines.append("OBLIGATION-COUNT-DROPPED property=%s now=%d expected>=%d" % (prop, total, expected))
        rc = 2
    wall = time.time() - t0
    ev = {
        "property_id": prop, "tier": tier, "seed": seed, "level": "proof",
        "coverage": {
            "obligations": total,
            "discharged": discharged,
            "checker_cmd": "python3-vt checks/check.py %s --tier %s" % (prop, tier),
            "trusted_base": TRUSTED_BASE,
            "backend": {"z3_obligations": total, "cvc5_second_opinion_queries": {k: (round(v, 1) if k == "seconds" else v)
                                                                                  for k, v in cvc5.items()} if tier == "thorough"
                        else "thorough tier only"},
            "assumed_contracts_not_verified": U.assumed_contracts(),
            "solver_seconds": round(solver_s, 2),
            "functions_under_contract": functions,
            "known_findings": [{"obligation": h.get("obligation"), "chi": h.get("chi", "always"),
                                "witness": h.get("witness"), "text": h["text"]} for h, _r, _o in known_hits],
            "refuted_new": len(violations),
            "undecided": [list(u) for u in undecided[:50]],
            "dropped_by_extraction": DROPPED,
            "samples": samples,
            "replays": replay_files,
        },
        "assumptions": TRUSTED_BASE,
        "wall_s": round(wall, 2),
        "violations": len(violations),
    }
    evdir = os.environ.get("VERIF_EVIDENCE_DIR", os.path.join(ROOT, "evidence"))
    os.makedirs(evdir, exist_ok=True)
    with open(os.path.join(evdir, "%s.json" % prop), "w") as fh:
        json.dump(ev, fh, indent=1)
    for l in out_lines:
        print(l)
    print("%s: %d obligations, %d discharged, %d known findings, %d new violations, %d undecided; %d units; %.1fs (exit %d)"
          % (prop, total, discharged, len(seen_known), len(violations), len(undecided), len(results), wall, rc))
    return rc


def merge_shards(rs):
    out = {}
    order = []
    for r in rs:
        u = r["unit"]
        if u not in out:
            out[u] = r
            order.append(u)
            continue
        m = out[u]
        m["obligations"] = m["obligations"] + r["obligations"]
        if r.get("cvc5"):
            mc = m.setdefault("cvc5", {})
            for k, v in r["cvc5"].items():
                mc[k] = mc.get(k, 0) + v
        m["seconds"] = max(m.get("seconds", 0), r.get("seconds", 0))
        for k in ("crash", "unsupported"):
            if r.get(k) and not m.get(k):
                m[k] = r[k]
    return [out[u] for u in order]


def load_expected():
    p = os.path.join(ROOT, "expected_obligations.json")
    if os.path.exists(p):
        return json.load(open(p))
    return {}


def write_replay(prop, r, o):
    d = os.path.join(os.environ.get("VERIF_REPLAY_DIR", os.path.join(ROOT, "replays")), prop)
    os.makedirs(d, exist_ok=True)
    fn = re.sub(r"[^A-Za-z0-9_.-]", "_", "%s.%s" % (r["unit"], o["name"]))[:150] + ".json"
    path = os.path.join(d, fn)
    rec = {"property": prop, "unit": r["unit"], "file": r.get("file"), "function_line": r.get("lineno"),
           "obligation": o["name"], "kind": o["kind"], "line": o["lineno"], "path": o.get("trace"),
           "verifier": "pyvc/z3: obligation refuted with a validated counter-model",
           "model": o.get("model"), "replayed": False}
    json.dump(rec, open(path, "w"), indent=1)
    # native replay (state injection) under the repository's interpreter
    try:
        cp = subprocess.run(["/venv/bin/python", os.path.join(ROOT, "checks", "replay.py"), path],
                            capture_output=True, text=True, timeout=120,
                            env=dict(os.environ, PYTHONPATH=os.path.join(os.environ.get("PYVC_REPO", "/repo"), "src")))
        rec = json.load(open(path))
        rec["replay_stdout"] = cp.stdout[-3000:]
        rec["replay_stderr"] = cp.stderr[-1500:]
        json.dump(rec, open(path, "w"), indent=1)
    except Exception as e:
        rec["replay_error"] = repr(e)
        json.dump(rec, open(path, "w"), indent=1)
    return path


if __name__ == "__main__":
    sys.exit(main())
