"""contracts.edges -- sidecar contracts for Edge, Buffer and Fleet (the thin wrappers that own one store).

An edge owns a store (`self.inbuiltstore`).  Its state is modelled as the store's fields under the prefix
"inbuiltstore." plus the edge's own scalars.  Calls into the store are replaced by the *store's contract*
(contracts.stores) applied to the projected sub-state: the store's body is never inlined.
"""
import z3
from pyvc import values as V
from pyvc import logic
from pyvc.logic import Forall
from pyvc.state import State
from pyvc.contract import FnContract, Def, DefHeap, DefRes, Clause, ExcCase, Structural, Lemma, apply_contract, PostCtx
from pyvc.execute import Exc, Outcome, FieldRef, Exec, SelfRef, EnvRef
from pyvc.values import Num, VObj, VBool, VStr, VOpaque, VNone, NONE, SList, Unsupported, VDyn, VOpt
from pyvc.lib_base import LibBase
from contracts import stores as S

PFX = "inbuiltstore."
PROFILES = {
    "Edge": dict(file="edges/edge.py", cls="Edge", store=None),
    "Buffer": dict(file="edges/buffer.py", cls="Buffer", store="B", avgkey="time_averaged_num_of_items_in_buffer"),
    "Fleet": dict(file="edges/fleet.py", cls="Fleet", store="L", avgkey="time_averaged_num_of_items_in_fleet"),
    # the two conveyor edges own a belt store under `self.belt` (modelled under the same internal prefix)
    "SConveyor": dict(file="edges/slotted_conveyor.py", cls="ConveyorBelt", store="S", attr="belt", conveyor=True,
                      avgkey="time_averaged_num_of_items_in_conveyor"),
    "CConveyor": dict(file="edges/continuous_conveyor.py", cls="ConveyorBelt", store="C", attr="belt", conveyor=True,
                      avgkey="time_averaged_num_of_items_in_conveyor"),
}
# the thin subclass of the slotted belt store defined next to the slotted conveyor: its constructor and its _do_put
# only forward to the base class (verified: which value goes to which base parameter; the result is passed through)
# Edge.connect (inherited by every edge class): verified on its own small state (the edge's two node references and the
# two node-side edge lists it registers itself in)
PROFILES["EdgeConnect"] = dict(file="edges/edge.py", cls="Edge", store=None)
PROFILES["SBeltSub"] = dict(file="edges/slotted_conveyor.py", cls="BeltStore", store=None, subclass_of=("env", "capacity", "mode", "delay"))
CONV_EVENTS = ("item_arrival_event", "get_events_available", "put_events_available")
STALLED = ("STALLED_ACCUMULATING_STATE", "STALLED_NONACCUMULATING_STATE")


class SubRef(V.Value):
    def __init__(self, prefix):
        self.prefix = prefix


class SubCtx:
    """context proxy used while a store contract is applied to the projected sub-state"""

    def __init__(self, parent, cls, contracts):
        self.parent = parent
        self.cls = cls
        self.contracts = contracts
        self.fname = parent.fname

    def oblige(self, name, state, goals, kind, lineno=0, props=()):
        self.parent.oblige("store." + name, state, goals, kind, lineno, props)

    def __getattr__(self, k):
        return getattr(self.parent, k)


def project(st, prefix=PFX):
    ss = State()
    ss.f = {k[len(prefix):]: v for k, v in st.f.items() if k.startswith(prefix)}
    ss.h = dict(st.h)
    ss.now, ss.active, ss.next_id = st.now, st.active, st.next_id
    ss.pc, ss.hyps = list(st.pc), list(st.hyps)
    ss.ghost = dict(st.ghost.get("sub:" + prefix, {}))
    for k in ("spawned", "call_ghosts", "consults", "lemma_terms"):
        if k in st.ghost:
            ss.ghost[k] = list(st.ghost[k]) if isinstance(st.ghost[k], list) else dict(st.ghost[k])
    ss.trace = list(st.trace)
    return ss


def merge_back(st, ss, prefix=PFX):
    s = st.fork()
    for k, v in ss.f.items():
        s.f[prefix + k] = v
    s.h = dict(ss.h)
    s.next_id = ss.next_id
    s.pc, s.hyps = list(ss.pc), list(ss.hyps)
    sub = {k: v for k, v in ss.ghost.items() if k in ("inv", "tag", "inv_rd", "inv_it", "owner_pos")}
    s.ghost["sub:" + prefix] = sub
    for k in ("spawned", "call_ghosts", "consults"):
        if k in ss.ghost:
            s.ghost[k] = ss.ghost[k]
    s.trace = list(ss.trace)
    return s


def lift(items, spc):
    """store contract items -> edge contract items (fields get the prefix; clauses are evaluated on the store view)"""
    out = []
    for it in items:
        if isinstance(it, Def):
            out.append(Def(PFX + it.name, it.value, it.props))
        elif isinstance(it, Structural):
            continue
        elif isinstance(it, Lemma):
            continue     # the store's frame lemma is about the store; an edge method may fire the edge's own events
        elif isinstance(it, Clause):
            f = it.clause
            out.append(Clause(it.name, (lambda f: (lambda _c: f(spc) if callable(f) else f))(f), it.props))
        else:
            out.append(it)
    return out


class Proj:
    """lazy store view of an edge state (re-projected at every access, so later updates of the edge state show)"""

    def __init__(self, get):
        object.__setattr__(self, "_get", get)

    def __getattr__(self, k):
        return getattr(project(object.__getattribute__(self, "_get")()), k)


class EdgeLib(LibBase):
    def __init__(self):
        super().__init__()
        self.storelib = S.StoreLib()
        self.contracts = {}
        for k in PROFILES:
            self.contracts[k] = self._make(k)

    def classes(self):
        return list(PROFILES)

    def profile(self, cls):
        return PROFILES[cls]

    def unit_props(self, cls, fn):
        return set(self.contracts[cls][fn].props) | {"C20"}

    def shards(self, cls, fn):
        return 6 if "cancel" in fn or fn in ("put", "get") else 1

    def chi(self, cls, name, old, args):
        if name == "always":
            return None
        return None

    # ------------------------------------------------------------------ state
    def schema(self, cls):
        p = PROFILES[cls]
        if cls == "SBeltSub":
            return {}
        if cls == "EdgeConnect":
            return {"src_node": ("opt", ("obj", "node")), "dest_node": ("opt", ("obj", "node")),
                    "src.out_edges": ("list", ("obj", "edge")), "dest.in_edges": ("list", ("obj", "edge")),
                    "src.out_edges.isnone": ("bool",), "dest.in_edges.isnone": ("bool",)}
        f = {"capacity": ("num", "int"), "delay": ("dyn",), "state": ("str",),
             "src_node": ("opt", ("obj", "node")), "dest_node": ("opt", ("obj", "node")),
             "stats.last_state_change_time": ("opt", ("num", "real")), "id": ("opaque",)}
        if p["store"]:
            f["stats." + p["avgkey"]] = ("num", "real")
            for st_ in ("IDLE_STATE", "RELEASING_STATE", "BLOCKED_STATE"):
                f["stats.total_time_spent_in_states." + st_] = ("num", "real")
            for k, kind in self.storelib.schema(p["store"]).items():
                f[PFX + k] = kind
        if cls == "Buffer":
            f["mode"] = ("str",)
        if cls == "Fleet":
            f["transit_delay"] = ("dyn",)
        if p.get("conveyor"):
            f["delay"] = ("num", "real")
            f["accumulating"] = ("num", "int")
            f["noaccumulation_mode_on"] = ("bool",)
            for e in CONV_EVENTS:
                f[e] = ("obj", "event")
            if cls == "CConveyor":
                f.update({"length": ("num", "real"), "speed": ("num", "real"), "conveyor_length": ("num", "real")})
        return f

    def initial_state(self, cls, fname, con):
        st = State()
        st.now = z3.Real("now")
        st.active = z3.Int("active_process")
        st.next_id = z3.Int("next_id")
        st.assume(st.now >= 0)
        st.assume(st.next_id >= 0)
        if not con.is_init:
            for nm, kind in self.schema(cls).items():
                st.f[nm] = V.mk_value("s0." + nm, kind)
            if PROFILES[cls].get("conveyor"):
                st.ghost["lemma_terms"] = [st.f[e].t for e in CONV_EVENTS]
        if cls == "EdgeConnect":
            st.ghost["self_id"] = z3.Int("self_id")
        return st

    def validity(self, cls, st, con):
        out = []
        if con.is_init or cls == "SBeltSub":
            return out
        if cls == "EdgeConnect":
            return [("valid.len.src.out_edges", st.f["src.out_edges"].len >= 0),
                    ("valid.len.dest.in_edges", st.f["dest.in_edges"].len >= 0)]
        p = PROFILES[cls]
        out.append(("valid.capacity", st.f["capacity"].t >= 1))
        if p.get("conveyor"):
            if cls == "CConveyor":
                out.append(("valid.item-length", st.f["length"].t > 0))
                out.append(("valid.speed", st.f["speed"].t > 0))
            else:
                out.append(("valid.delay", st.f["delay"].t > 0))
        else:
            out.append(("valid.delay", st.f["delay"].well_formed()))
        if p["store"]:
            ss = project(st)
            for nm, cl in self.storelib.validity(p["store"], ss, con):
                out.append(("store." + nm, cl))
        return out

    def invariant(self, cls, st, side="prove"):
        p = PROFILES[cls]
        out = []
        if not p["store"]:
            return out
        ss = project(st)
        for nm, cl, props in self.storelib.invariant(p["store"], ss, side=side):
            out.append(("store." + nm, cl, props))
        if side == "assume":
            st.ghost["sub:" + PFX] = {k: v for k, v in ss.ghost.items() if k in ("inv", "tag", "inv_rd", "inv_it")}
        cap = st.f[PFX + "capacity"]
        out.append(("edge.capacity-is-store-capacity", z3.And(z3.Not(cap.inf) if cap.inf is not None else z3.BoolVal(True),
                                                              cap.t == st.f["capacity"].t), ("C01", "C11", "C12")))
        if p.get("conveyor"):
            # the conveyor's own signalling events are allocated by the conveyor and never handed to its belt
            # store as request tokens (S.FOREIGN); the store's invariant says that none of its tokens is foreign
            evs = [st.f[e].t for e in CONV_EVENTS]
            for nm, e in zip(CONV_EVENTS, evs):
                out.append(("edge.%s-is-the-conveyors-own" % nm, S.FOREIGN(e), ("C12",)))
            out.append(("edge.signalling-events-pairwise-distinct", z3.Distinct(*evs), ("C12",)))
        if cls == "SConveyor":
            out.append(("edge.slot-delay-is-store-delay", st.f["delay"].t == st.f[PFX + "delay"].t, ("C12",)))
        if cls == "CConveyor":
            out.append(("edge.speed-is-store-speed", st.f["speed"].t == st.f[PFX + "speed"].t, ("C12",)))
        if cls == "Fleet":
            out.append(("edge.transit-delay-is-store-transit-delay", z3.Implies(
                st.f["transit_delay"].is_num(), st.f[PFX + "transit_delay"].t == st.f["transit_delay"].num), ("C14",)))
            out.append(("edge.waiting-delay-is-store-delay", z3.Implies(
                st.f["delay"].is_num(), st.f[PFX + "delay"].t == st.f["delay"].num), ("C14",)))
        if cls == "Buffer":
            out.append(("edge.mode-is-store-mode", st.f["mode"].t == st.f[PFX + "mode"].t, ("C06",)))
            out.append(("edge.mode-valid", z3.Or(st.f["mode"].t == V.str_const("FIFO"), st.f["mode"].t == V.str_const("LIFO")),
                        ("C20",)))
        return out

    def bind_params(self, cls, fname, fnode, con, st):
        args = {}
        for (nm, kind, default) in con.params:
            if kind[0] == "env":
                args[nm] = EnvRef()
            else:
                args[nm] = V.mk_value("arg." + nm, kind)
                if kind[0] == "dyn":
                    st.assume(args[nm].well_formed())
        return args

    def frame(self, cls, con, old, new):
        if getattr(con, "no_frame", False):
            return []
        from pyvc.contract import unchanged_clauses
        fields = [f for f in old.f if f not in con.modifies]
        heaps = [h for h in old.h if h.split("?")[0].split("#")[0] not in con.heap_modifies]
        return unchanged_clauses(self, cls, old, new, fields, heaps)

    def model_to_json(self, st, m, ob):
        old = getattr(ob.ctx, "old", None)
        args = getattr(ob.ctx, "args", None) or {}
        return {"entry": S.dump_state(self, old, m) if old is not None else None, "exit": S.dump_state(self, st, m),
                "args": {k: S.dump_value(v, m) for k, v in args.items() if isinstance(v, V.Value)}}

    # ------------------------------------------------------------------ executor hooks
    def self_attr(self, ctx, attr, st):
        if attr == PROFILES[ctx.cls].get("attr", "inbuiltstore") and any(k.startswith(PFX) for k in st.f):
            return SubRef(PFX)
        return None

    def set_self_attr(self, ex, attr, v, st, lineno):
        if attr == PROFILES[ex.ctx.cls].get("attr", "inbuiltstore") and isinstance(v, SubRef):
            return [Outcome("next", st)]
        if attr == "env" and isinstance(v, EnvRef):
            return [Outcome("next", st)]
        sch = self.schema(ex.ctx.cls)
        if attr in sch and sch[attr][0] == "dyn" and not isinstance(v, VDyn):
            st.f[attr] = V.dyn_of(v)
            return [Outcome("next", st)]
        if attr in sch and sch[attr][0] == "num" and isinstance(v, VDyn) and ex.ctx.cls != "Edge":
            # (Edge.__init__ itself validates the raw value, so there it stays dynamic)
            st.f[attr] = Num(z3.ToInt(v.num)) if sch[attr][1] == "int" else Num(v.num)
            return [Outcome("next", st)]
        if attr in sch and sch[attr][0] == "str" and isinstance(v, VDyn):
            # a non-string value is different from every string
            st.f[attr] = VStr(z3.If(v.tag == V.T_STR, v.s, -1000 - v.tag))
            return [Outcome("next", st)]
        if attr in sch and sch[attr][0] == "opt" and isinstance(v, VObj):
            st.f[attr] = VOpt(z3.BoolVal(False), v)
            return [Outcome("next", st)]
        if attr in sch and sch[attr][0] == "opt" and isinstance(v, VNone):
            st.f[attr] = VOpt(z3.BoolVal(True), V.mk_value("none." + attr, sch[attr][1]))
            return [Outcome("next", st)]
        return None

    def is_method(self, cls, attr):
        return attr in self.contracts.get(cls, {}) or attr in self.contracts["Edge"]

    def optional_fields(self, cls):
        return (PROFILES[cls].get("attr", "inbuiltstore"),)

    def may_create(self, cls, attr):
        return False

    def call_self(self, ex, name, args, kw, st, lineno):
        cls = ex.ctx.cls
        con = self.contracts[cls].get(name) or self.contracts["Edge"].get(name)
        if con is None:
            r = self.inline_accessor(ex, name, args, kw, st, lineno)
            if r is not None:
                return r
            raise Unsupported("call to self.%s() which has no contract (line %d)" % (name, lineno))
        if con.is_generator:
            from pyvc.execute import VGen
            return [(VGen(name, {}), st)]
        amap = {}
        for k, (pn, kind, default) in enumerate(con.params):
            if k < len(args):
                amap[pn] = args[k]
            elif pn in kw:
                amap[pn] = kw[pn]
            elif default is not None:
                amap[pn] = default
            else:
                raise Unsupported("missing argument %s for %s" % (pn, name))
        return apply_contract(ex, con, amap, st, lineno, self, cls)

    def call_other(self, ex, base, name, args, kw, st, node):
        if isinstance(base, SubRef):
            return self.call_store(ex, name, args, kw, st, node.lineno)
        return None

    def call_store(self, ex, name, args, kw, st, lineno):
        """apply the store's contract to the projected sub-state"""
        cls = ex.ctx.cls
        scls = PROFILES[cls]["store"]
        ss = project(st)

        def conv(a):
            if isinstance(a, V.VTuple):
                return V.VTuple([conv(x) for x in a.items])
            if isinstance(a, VDyn):
                ex.ctx.oblige("store-argument-is-a-number@L%d" % lineno, st, [a.is_num()], "call-pre", lineno, ("C20",))
                return Num(a.num)
            return a
        args = [conv(a) for a in args]
        ex2 = Exec(SubCtx(ex.ctx, scls, self.storelib))
        outs = []
        for v, s2 in self.storelib.call_self(ex2, name, args, kw, ss, lineno):
            s3 = merge_back(st, s2)
            s3.ghost.setdefault("store_calls", []).append((name, list(args)))
            outs.append((v, s3))
        return outs

    def builtin(self, ex, name, args, kw, st, node):
        """BufferStore(env, capacity=..., mode=...) / FleetStore(env, capacity=..., delay=..., transit_delay=...):
        the store's __init__ contract applied to a fresh sub-state"""
        if name == "int" and len(args) == 1 and isinstance(args[0], Num):
            # int(x): truncation towards zero
            x = args[0]
            if x.is_int:
                return [(x, st)]
            return [(Num(z3.If(x.t >= 0, z3.ToInt(x.t), -z3.ToInt(-x.t))), st)]
        if name not in ("BufferStore", "FleetStore", "BeltStore"):
            return None
        cls = ex.ctx.cls
        scls = PROFILES[cls]["store"]
        if name == "BeltStore":
            # BeltStore(env, capacity, delay) / BeltStore(env, capacity, speed, accumulating): positional
            kw = dict(kw)
            kw["capacity"] = args[1]
        if name in ("BufferStore", "FleetStore") and len(args) > 1:
            # positional arguments follow the constructor's signature
            kw = dict(kw)
            sig = ("env", "capacity", "mode") if name == "BufferStore" else ("env", "capacity", "delay", "transit_delay")
            for k, a in enumerate(args):
                if k < len(sig) and sig[k] not in kw:
                    kw[sig[k]] = a
        con = self.storelib.contracts[scls]["__init__"]
        s = st.fork()
        tag = "new%s" % logic.fresh("n").decl().name().split("!")[1]
        for k, kind in self.storelib.schema(scls).items():
            s.f[PFX + k] = V.mk_value("%s.%s" % (tag, k), kind)
        ss = project(s)

        def num(v):
            return Num(v.num) if isinstance(v, VDyn) else v
        cap = kw.get("capacity")
        capn = V.as_num(num(cap))
        amap = {"capacity": Num(z3.ToInt(capn.t) if not capn.is_int else capn.t, inf=z3.BoolVal(False))}
        if scls == "B":
            amap["mode"] = kw.get("mode")
        if scls == "L":
            # the store uses both values as numbers (timeouts); a generator / callable delay of the Fleet edge is not
            # a number (the edge never draws from it for the store): modelled by its numeric payload
            for k_, dflt in (("delay", 1), ("transit_delay", 0)):
                v_ = kw.get(k_)
                amap[k_] = V.as_num(num(v_)) if v_ is not None else Num(dflt)
                if not amap[k_].is_int:
                    pass
                else:
                    amap[k_] = Num(z3.ToReal(amap[k_].t))
        if scls == "S":
            # the BeltStore subclass in slotted_conveyor.py passes mode="FIFO" to the belt store proper
            amap["delay"] = V.as_num(num(args[2]))
            amap["mode"] = VStr("FIFO")
        if scls == "C":
            amap["speed"] = V.as_num(num(args[2]))
            acc = args[3]
            amap["accumulation_mode_indicator"] = VBool(V.truth(acc))
        outs = []
        # exceptional case of the store constructor (capacity <= 0) cannot happen after Edge.__init__ accepted it
        ex.ctx.oblige("store-constructor.capacity-positive@L%d" % node.lineno, st, [capn.t >= 1], "call-pre", node.lineno, ("C20",))
        pc = PostCtx("caller", ss, ss, amap, None, self.storelib, scls)
        for it in con.post(pc):
            if isinstance(it, Clause):
                ss.assume(it.clause(pc) if callable(it.clause) else it.clause)
        for nm, cl in self.storelib.validity(scls, ss, con) if False else []:
            ss.assume(cl)
        ss.assume(capn.t >= 1)
        for nm, cl, props in self.storelib.invariant(scls, ss, side="assume"):
            ss.assume(cl)
        s2 = merge_back(s, ss)
        return [(SubRef(PFX), s2)]

    def _make_conveyor(self, cls, C, passthrough, connected, store_state, avgfield):
        _conveyor_contracts(self, cls, C, passthrough, connected, store_state, avgfield)

    def consult(self, ex, dyn, how, st, node):
        """one draw from a user supplied generator (next) or callable (call): a fresh value (assumption A-user:
        user sources are total and have no effect on the factory's state)"""
        s = st.fork()
        r = VDyn("draw!%s" % logic.fresh("n").decl().name().split("!")[1])
        s.assume(r.well_formed())
        s.ghost.setdefault("consults", []).append((how, dyn.oid, r, z3.BoolVal(True)))
        return [(r, s)]

    def get_attr_other(self, ex, base, attr, st, lineno):
        if isinstance(base, SubRef):
            return self.get_attr_sub(ex, base, attr, st, lineno)
        return None

    def set_attr_other(self, ex, base, attr, v, st, lineno):
        if isinstance(base, SubRef):
            key = base.prefix + attr
            if key not in st.f:
                raise Unsupported("store attribute %s (line %d)" % (attr, lineno))
            s = st.fork()
            s.f[key] = v
            return [Outcome("next", s)]
        return None

    def get_attr_sub(self, ex, base, attr, st, lineno):
        key = base.prefix + attr
        if key in st.f:
            v = st.f[key]
            if isinstance(v, SList):
                return [(FieldRef(key), st)]
            return [(v, st)]
        raise Unsupported("store attribute %s (line %d)" % (attr, lineno))

    def call_env(self, ex, name, args, kw, st, node):
        if name == "event" and not args:
            s = st.fork()
            e = s.fresh_obj("event")
            s.heap_set(e, "triggered", VBool(False))
            s.assume(S.FOREIGN(e.t))            # allocated by the edge, not by its store
            return [(e, s)]
        if name == "process" and len(args) == 1:
            from pyvc.execute import VGen
            if isinstance(args[0], VGen):
                s = st.fork()
                s.ghost.setdefault("spawned", []).append((args[0].name, args[0].args))
                return [(s.fresh_obj("proc"), s)]
        raise Unsupported("env.%s() in an edge method (line %d)" % (name, node.lineno))

    def call_opaque(self, ex, base, name, args, kw, st, node):
        if getattr(base, "tag", "") == "module:np" and name == "ceil" and len(args) == 1 and isinstance(args[0], Num):
            x = args[0]
            if x.is_int:
                return [(x, st)]
            return [(Num(z3.ToReal(-z3.ToInt(-x.t))), st)]       # ceiling, as a float
        return None

    def call_obj(self, ex, base, name, args, kw, st, node):
        if base.kind == "event" and name == "succeed":
            outs, ok = ex.raise_if(st, S.trig(st, base.t), "RuntimeError", node.lineno, "succeed() on triggered event")
            if ok is not None:
                ok.heap_set(base, "triggered", VBool(True))
                outs.append((base, ok))
            return outs
        raise Unsupported("%s.%s() at line %d" % (base.kind, name, node.lineno))

    def isinstance_other(self, ex, v, names, st):
        if isinstance(v, EnvRef):
            return VBool("Environment" in names)
        if isinstance(v, VObj) and v.kind == "node":
            return VBool("Node" in names)
        return None

    # Edge.connect(src, dest): the two node arguments' edge lists are modelled as fields "src.out_edges", "dest.in_edges"
    def self_obj(self, ex, st):
        if "self_id" not in st.ghost:
            raise Unsupported("self used as a value")
        return VObj(st.ghost["self_id"], "edge")

    def _node_list_field(self, ex, base, attr):
        a = getattr(ex.ctx, "args", None) or {}
        if ex.ctx.fname == "connect" and isinstance(base, VObj) and base.kind == "node":
            if attr == "out_edges" and "src" in a and base.t.eq(a["src"].t):
                return "src.out_edges"
            if attr == "in_edges" and "dest" in a and base.t.eq(a["dest"].t):
                return "dest.in_edges"
        return None

    def obj_attr(self, ex, base, attr, st, lineno):
        f = self._node_list_field(ex, base, attr)
        if f is not None:
            return [(VOpt(st.f[f + ".isnone"].t, FieldRef(f)), st)]
        return [(st.heap_get(base, attr), st)]

    def set_obj_attr(self, ex, base, attr, v, st, lineno):
        f = self._node_list_field(ex, base, attr)
        if f is not None:
            if isinstance(v, SList) and v.ekind == ("any",) and V.is_literally_empty(v):
                st.f[f] = V.list_empty(("obj", "edge"))
                st.f[f + ".isnone"] = VBool(False)
                return [Outcome("next", st)]
            raise Unsupported("assignment to %s (line %d)" % (f, lineno))
        return None

    def call_super(self, ex, name, args, st, lineno):
        if ex.ctx.cls == "SBeltSub":
            # super().__init__(...) / super()._do_put(...) of the base belt store: record which value reaches which base
            # parameter (positional arguments follow the base signature, keywords by name)
            node = ex.ctx.super_call_node
            sig = PROFILES["SBeltSub"]["subclass_of"] if name == "__init__" else ("put_event", "item")
            got = {}
            for k, a in enumerate(args):
                if k < len(sig):
                    got[sig[k]] = a
            for kwd in node.keywords:
                rs = ex.eval(kwd.value, st)
                if len(rs) != 1 or isinstance(rs[0][0], Exc):
                    raise Unsupported("keyword argument with effects")
                got[kwd.arg] = rs[0][0]
            s = st.fork()
            s.ghost.setdefault("super_calls", []).append((name, got))
            res = NONE if name == "__init__" else VOpaque("super._do_put result")
            if name != "__init__":
                s.ghost["super_result"] = res
            return [(res, s)]
        # Edge.__init__(env, id, capacity) by contract
        con = self.contracts["Edge"]["__init__"]
        cap = args[2]
        if isinstance(cap, Num):
            cap = V.dyn_of(cap)
        amap = {"env": args[0], "id": args[1], "capacity": cap}
        return apply_contract(ex, con, amap, st, lineno, self, ex.ctx.cls)

    # ------------------------------------------------------------------ contracts
    def _make(self, cls):
        lib = self
        p = PROFILES[cls]
        C = {}
        if cls == "EdgeConnect":
            def me(c):
                return c.old.ghost["self_id"]

            def nodup(lst):
                return V.forall_idx2(lst, lst, lambda i, j, a, b: a.t != b.t, "nodup", strict_lt=True)

            def conn_post(c):
                o, n = c.old, c.new
                items = [Clause("source-and-destination-recorded", lambda c: z3.And(
                    z3.Not(n.f["src_node"].isnone), n.f["src_node"].val.t == c.args["src"].t,
                    z3.Not(n.f["dest_node"].isnone), n.f["dest_node"].val.t == c.args["dest"].t), ("C20",))]
                for f in ("src.out_edges", "dest.in_edges"):
                    L1 = n.f[f]
                    items += [
                        Clause(f + ".is-a-list-afterwards", lambda c, f=f: z3.Not(n.f[f + ".isnone"].t), ("C20", "C10")),
                        # A-edges is established here: the node's list contains this edge, and if it had no duplicates
                        # before it has none afterwards (connecting twice, or after the constructor already listed the
                        # edge, must not list it twice: the index of an edge in its node's list is what the policies use)
                        Clause(f + ".contains-this-edge", lambda c, L1=L1: logic.Exists(
                            1, lambda j: z3.And(0 <= j, j < L1.len, L1.at(j).t == me(c)), [L1.len], "has-self"), ("C20", "C10")),
                        Clause(f + ".no-duplicates", lambda c, L1=L1: nodup(L1), ("C20", "C10", "C15"))]
                return items
            C["connect"] = FnContract(
                "connect", [("src", ("obj", "node"), None), ("dest", ("obj", "node"), None), ("reconnect", ("bool",), VBool(False))],
                pre=lambda st, args: [
                    ("A-edges.in: the node-side lists have no duplicates so far", nodup(st.f["src.out_edges"])),
                    ("A-edges.in2", nodup(st.f["dest.in_edges"]))],
                post=conn_post,
                excs=[ExcCase("ValueError", lambda c: z3.And(z3.Not(c.args["reconnect"].t), z3.Or(
                    z3.Not(c.old.f["src_node"].isnone), z3.Not(c.old.f["dest_node"].isnone))), "already-connected",
                    unchanged=True, props=("C20",))],
                normal_requires=lambda c: z3.Or(c.args["reconnect"].t, z3.And(c.old.f["src_node"].isnone,
                                                                            c.old.f["dest_node"].isnone)),
                modifies=("src_node", "dest_node", "src.out_edges", "dest.in_edges", "src.out_edges.isnone", "dest.in_edges.isnone"),
                uses_inv=False, keeps_inv=False, props=("C20", "C10", "C15"))
            return C
        if cls == "SBeltSub":
            def same(a, b):
                if isinstance(a, Num) and isinstance(b, Num):
                    return V.eq(a, b)
                if isinstance(a, VStr) and isinstance(b, VStr):
                    return a.t == b.t
                return z3.BoolVal(a is b)

            def init_ok(c):
                calls = [x for x in c.new.ghost.get("super_calls", []) if x[0] == "__init__"]
                if len(calls) != 1:
                    return z3.BoolVal(False)
                got = calls[0][1]
                want = {"capacity": c.args["capacity"], "delay": c.args["delay"], "mode": VStr("FIFO")}
                if set(got) - {"env"} != set(want):
                    return z3.BoolVal(False)
                return z3.And(*[same(got[k], want[k]) for k in want])
            C["__init__"] = FnContract(
                "__init__", [("env", ("env",), None), ("capacity", ("num", "int"), None), ("delay", ("num", "real"), None)],
                post=lambda c: [Structural("hands-capacity-FIFO-and-the-slot-delay-to-the-belt-store", init_ok, ("C12", "C06"))],
                uses_inv=False, keeps_inv=False, is_init=True, props=("C12", "C06"))
            C["__init__"].no_frame = True

            def put_ok(c):
                calls = [x for x in c.new.ghost.get("super_calls", []) if x[0] == "_do_put"]
                if len(calls) != 1:
                    return z3.BoolVal(False)
                got = calls[0][1]
                ok = got.get("put_event") is c.args["event"] and got.get("item") is c.args["item"]
                return z3.BoolVal(bool(ok and c.res is c.new.ghost.get("super_result")))
            C["_do_put"] = FnContract(
                "_do_put", [("event", S.EV, None), ("item", ("opaque",), None)],
                post=lambda c: [Structural("forwards-to-the-belt-store-and-returns-its-result", put_ok, ("C12", "C01"))],
                uses_inv=False, keeps_inv=False, result_kind=("opaque",), props=("C12", "C01"))
            C["_do_put"].no_frame = True
            return C
        if cls == "Edge":
            # ---- Edge.__init__(env, id, capacity): rejects a capacity that is not a positive integer
            def cap_ok(c):
                cap = c.args["capacity"]
                return z3.And(cap.tag == V.T_INT, cap.num >= 1)     # bool is an int in Python; True == 1 passes too
            C["__init__"] = FnContract(
                "__init__", [("env", ("env",), None), ("id", ("dyn",), None), ("capacity", ("dyn",), None)],
                excs=[ExcCase("ValueError", lambda c: z3.And(c.args["id"].tag == V.T_STR, z3.Not(z3.Or(
                    z3.And(z3.Or(c.args["capacity"].tag == V.T_INT, c.args["capacity"].tag == V.T_BOOL),
                           c.args["capacity"].num > 0)))), "capacity-not-a-positive-integer", unchanged=False, props=("C20",)),
                      ExcCase("TypeError", lambda c: c.args["id"].tag != V.T_STR, "id-not-a-string", unchanged=False,
                              props=("C20",))],
                normal_requires=lambda c: z3.And(c.args["id"].tag == V.T_STR, z3.Or(
                    c.args["capacity"].tag == V.T_INT, c.args["capacity"].tag == V.T_BOOL), c.args["capacity"].num > 0),
                post=lambda c: [Clause("capacity-recorded", lambda c: V.eq(c.new.f["capacity"], c.args["capacity"]), ("C20",)),
                                Clause("unconnected", lambda c: z3.And(V.eq(c.new.f["src_node"], NONE),
                                                                       V.eq(c.new.f["dest_node"], NONE)), ("C20",))],
                modifies=("capacity", "src_node", "dest_node", "id"),
                uses_inv=False, keeps_inv=False, is_init=True, props=("C20",))

            # ---- Edge.get_delay(delay): constant -> itself, generator -> exactly one next(), callable -> one call
            def gd_val(c):
                d = c.args["delay"]

                def wit():
                    cs = c.new.ghost.get("consults", [])
                    cs0 = c.old.ghost.get("consults", [])
                    return V.ite(cs[-1][3], cs[-1][2], d) if len(cs) > len(cs0) else d
                if c.side == "callee":
                    return wit()
                if "val" not in c._ghosts:
                    c._ghosts["val"] = VDyn("gd!%s" % logic.fresh("n").decl().name().split("!")[1])
                    c.new.assume(c._ghosts["val"].well_formed())
                return c._ghosts["val"]

            def gd_record(c):
                d = c.args["delay"]
                val = gd_val(c)
                drawn = z3.Or(d.tag == V.T_GEN, d.tag == V.T_FUNC)
                return Structural("source-consulted-exactly-once", lambda c: _consults_ok(c, d), ("C08", "C11"),
                                  caller_effect=lambda c: c.new.ghost.setdefault("consults", []).append(
                                      ("contract", d.oid, val, drawn)))

            def gd_const(c):
                d = c.args["delay"]
                val = gd_val(c)
                drawn = z3.Or(d.tag == V.T_GEN, d.tag == V.T_FUNC)
                return Clause("constant-is-returned-as-is", lambda c: z3.Implies(z3.Not(drawn), V.same_dyn(val, d)), ("C08", "C11"))

            def gd_post(c):
                d = c.args["delay"]
                val = gd_val(c)
                drawn = z3.Or(d.tag == V.T_GEN, d.tag == V.T_FUNC)
                return [
                    Clause("constant-is-returned-as-is", lambda c: z3.Implies(z3.Not(drawn), V.same_dyn(val, d)), ("C08", "C11")),
                    Clause("result-is-the-drawn-value", lambda c: V.same_dyn(c.res, val), ("C08", "C11")),
                    Clause("result-nonnegative-number", lambda c: z3.And(val.is_num(), val.num >= 0), ("C20", "C08")),
                    Structural("source-consulted-exactly-once",
                               lambda c: _consults_ok(c, d), ("C08", "C11"),
                               caller_effect=lambda c: c.new.ghost.setdefault("consults", []).append(
                                   ("contract", d.oid, val, drawn))),
                ]
            C["get_delay"] = FnContract(
                "get_delay", [("delay", ("dyn",), None)], post=gd_post,
                excs=[ExcCase("AssertionError", lambda c: z3.And(gd_val(c).is_num(), gd_val(c).num < 0),
                              "negative-delay", unchanged=True, props=("C20",), clauses=lambda c: [gd_record(c), gd_const(c)]),
                      ExcCase("TypeError", lambda c: z3.Not(gd_val(c).is_num()), "delay-not-a-number", unchanged=True,
                              props=("C20",), clauses=lambda c: [gd_record(c), gd_const(c)])],
                normal_requires=lambda c: z3.And(gd_val(c).is_num(), gd_val(c).num >= 0),
                uses_inv=False, keeps_inv=False, result_kind=("dyn",), props=("C08", "C11", "C20"))
            return C

        scls = p["store"]
        sl = self.storelib
        sp = S.PROFILES[scls]

        def store_state(st):
            return project(st)

        # ---- can_put / can_get: exact (C11)
        def can_put_post(c):
            o = c.old
            so = store_state(o)
            g = sl.grantable_put(scls, so)
            items = [Clause("true-iff-a-reservation-issued-now-is-granted", lambda c: V.truth(c.res) == g, ("C11", "C09"))]
            # relational lemma against the store's reserve_put contract: the token returned by a reserve_put()
            # issued in this very state is triggered exactly when can_put() answered True
            items.append(Clause("agrees-with-store.reserve_put", lambda c: _agrees(lib, c, "reserve_put"), ("C11", "C09")))
            return items

        def can_get_post(c):
            o = c.old
            so = store_state(o)
            g = sl.grantable_get(scls, so)
            return [Clause("true-iff-a-reservation-issued-now-is-granted", lambda c: V.truth(c.res) == g, ("C11", "C10")),
                    Clause("agrees-with-store.reserve_get", lambda c: _agrees(lib, c, "reserve_get"), ("C11", "C10"))]
        if not p.get("conveyor"):       # (the conveyors' probes are in contracts.conveyors: finding D6)
            C["can_put"] = FnContract("can_put", [], post=can_put_post, result_kind=("bool",), props=("C11", "C09"), pure=True)
            C["can_get"] = FnContract("can_get", [], post=can_get_post, result_kind=("bool",), props=("C11", "C10"), pure=True)
            occ = "occupancy" if cls == "Buffer" else "get_occupancy"
            C[occ] = FnContract(occ, [], post=lambda c: [Clause(
                "counts-in-transit-and-ready-items",
                lambda c: V.eq(c.res, Num(S.held(store_state(c.old), sp))), ("C11", "C01"))],
                result_kind=("num", "int"), props=("C11", "C01"), pure=True)

        # ---- pass-through methods: the edge's effect is exactly the store's contract
        def passthrough(name, params, props, result_kind, extra_pre=None, extra_post=None, wrap_item=False):
            scon = sl.contracts[scls][name]

            def post(c):
                # evaluate the store contract on the projected states
                so, sn = store_state(c.old), Proj(lambda: c.new)
                sargs = dict(c.args)
                if "event" in sargs:
                    ev = sargs.pop("event")
                    sargs[scon.params[0][0]] = ev
                for (pn, kind, default) in scon.params:
                    if pn not in sargs and default is not None:
                        sargs[pn] = default
                if callable(wrap_item):
                    sargs["item"] = wrap_item(c)
                elif wrap_item:
                    dval = _drawn_delay(c)
                    sargs["item"] = V.VTuple([c.args["item"], Num(dval.num)])
                pc = PostCtx(c.side, so, sn, sargs, c.res, sl, scls)
                pc._ghosts = c._ghosts
                if c.side == "callee":
                    # the edge body reached the store through the store's contract: its ghosts are the witnesses
                    fw = c.new.ghost.get("call_ghosts", {}).get(name, {})
                    for gk, gv in fw.items():
                        pc._ghosts.setdefault(gk, gv)
                out = lift(scon.post(pc), pc)
                if extra_post:
                    out += extra_post(c)
                return out

            def conv_when(fn):
                def w(c):
                    sargs = dict(c.args)
                    if "event" in sargs:
                        sargs[scon.params[0][0]] = sargs.pop("event")
                    pc = PostCtx(c.side, store_state(c.old), Proj(lambda: c.new), sargs, c.res, sl, scls)
                    return fn(pc)
                return w
            excs = [ExcCase(e.etype, conv_when(e.when), e.name, unchanged=e.unchanged, props=e.props) for e in scon.excs]
            nr = conv_when(scon.normal_requires) if scon.normal_requires else None

            def pre(st, args):
                out = []
                if extra_pre:
                    out += extra_pre(st, args)
                return out
            mods = tuple(PFX + m for m in scon.modifies)
            return FnContract(name, params, pre=pre, post=post, excs=excs, normal_requires=nr, modifies=mods,
                              heap_modifies=scon.heap_modifies, result_kind=result_kind, props=props,
                              allocates=scon.allocates)
        C["reserve_put"] = passthrough("reserve_put", [], ("C01", "C04", "C05", "C11"), S.EV)
        C["reserve_get"] = passthrough("reserve_get", [], ("C02", "C04", "C05", "C11"), S.EV)
        C["reserve_put_cancel"] = passthrough("reserve_put_cancel", [("event", S.EV, None)], ("C07", "C04"), ("bool",))
        C["reserve_get_cancel"] = passthrough("reserve_get_cancel", [("event", S.EV, None)], ("C07", "C06", "C02"),
                                              ("bool",))

        def connected(st, args):
            return [("connected.src", z3.Not(st.f["src_node"].isnone)), ("connected.dest", z3.Not(st.f["dest_node"].isnone))]
        avgfield = "stats." + p["avgkey"]
        C["initial_test"] = FnContract(
            "initial_test", [], excs=[ExcCase("AssertionError", lambda c: z3.Or(c.old.f["src_node"].isnone,
                                                                              c.old.f["dest_node"].isnone),
                                              "edge-not-connected", unchanged=True, props=("C20",))],
            normal_requires=lambda c: z3.And(z3.Not(c.old.f["src_node"].isnone), z3.Not(c.old.f["dest_node"].isnone)),
            props=("C20",), pure=True)
        if p.get("conveyor"):
            self._make_conveyor(cls, C, passthrough, connected, store_state, avgfield)
            return C

        def stats_post(c):
            return [Clause("stats-show-the-store-average",
                           lambda c: c.new.f[avgfield].t == c.new.f[PFX + "time_averaged_num_of_items_in_store"].t, ("C18",))]
        C["get"] = passthrough("get", [("event", S.EV, None)], ("C02", "C06", "C07", "C18"), S.IT, extra_pre=connected,
                               extra_post=stats_post)
        C["get"].modifies = C["get"].modifies + (avgfield,) + tuple(PFX + x for x in (
            "_weighted_sum", "_last_level_change_time", "_last_num_items", "time_averaged_num_of_items_in_store"))
        if cls == "Fleet":
            C["get"].heap_modifies = tuple(C["get"].heap_modifies) + ("fleet_exit_time",)
        if cls == "Buffer":
            def put_pre(st, args):
                x = args["item"].t
                ss = store_state(st)
                return connected(st, args) + [
                    ("A-distinct.not-in-transit", V.forall_idx(ss.f[S.ITEMS], lambda i, y: y.items[0].t != x, "A-distinct.It")),
                    ("A-distinct.not-ready", V.forall_idx(ss.f[S.RD], lambda i, y: y.t != x, "A-distinct.Rd")),
                    ("A-user-delay: the delay source yields non-negative numbers",
                     z3.Implies(z3.Not(z3.Or(st.f["delay"].tag == V.T_GEN, st.f["delay"].tag == V.T_FUNC)),
                                z3.And(st.f["delay"].is_num(), st.f["delay"].num >= 0)))]

            def put_extra(c):
                return stats_post(c) + [
                    Structural("delay-drawn-exactly-once", lambda c: _consults_ok(c, c.old.f["delay"]), ("C11",)),
                    Clause("stored-with-the-drawn-delay", lambda c: z3.And(
                        store_state(c.new).f[S.ITEMS].at(store_state(c.old).f[S.ITEMS].len).items[0].t == c.args["item"].t,
                        store_state(c.new).f[S.ITEMS].at(store_state(c.old).f[S.ITEMS].len).items[1].t == _drawn_delay(c).num),
                        ("C11",))]
            C["put"] = passthrough("put", [("event", S.EV, None), ("item", S.IT, None)], ("C01", "C02", "C07", "C11", "C18"),
                                   ("bool",), extra_pre=put_pre, extra_post=put_extra, wrap_item=True)
            C["put"].modifies = C["put"].modifies + (avgfield,)
            C["put"].excs = C["put"].excs + [
                ExcCase("AssertionError", lambda c: z3.And(_drawn_delay(c).is_num(), _drawn_delay(c).num < 0),
                        "negative-delay-drawn", unchanged=True, props=("C20",)),
                ExcCase("TypeError", lambda c: z3.Not(_drawn_delay(c).is_num()), "delay-not-a-number", unchanged=True,
                        props=("C20",))]
            nr0 = C["put"].normal_requires
            C["put"].normal_requires = lambda c: z3.And(nr0(c), _drawn_delay(c).is_num(), _drawn_delay(c).num >= 0)
        if cls == "Fleet":
            def fput_pre(st, args):
                x = args["item"].t
                ss = store_state(st)
                return connected(st, args) + [
                    ("A-distinct.not-in-transit", V.forall_idx(ss.f[S.ITEMS], lambda i, y: y.t != x, "A-distinct.It")),
                    ("A-distinct.not-ready", V.forall_idx(ss.f[S.RD], lambda i, y: y.t != x, "A-distinct.Rd")),
                    ("A-user-delay: a constant delay is a non-negative number",
                     z3.Implies(z3.Not(z3.Or(st.f["delay"].tag == V.T_GEN, st.f["delay"].tag == V.T_FUNC)),
                                z3.And(st.f["delay"].is_num(), st.f["delay"].num >= 0)))]
            C["put"] = passthrough("put", [("event", S.EV, None), ("item", S.IT, None)], ("C01", "C02", "C07", "C14", "C18"),
                                   ("bool",), extra_pre=fput_pre, extra_post=lambda c: stats_post(c))
            C["put"].modifies = C["put"].modifies + (avgfield,)
            C["put"].heap_modifies = tuple(C["put"].heap_modifies) + ("fleet_entry_time",)
            C["put"].excs = C["put"].excs + [
                ExcCase("AssertionError", lambda c: z3.And(_drawn_delay(c).is_num(), _drawn_delay(c).num < 0),
                        "negative-delay-drawn", unchanged=True, props=("C20",)),
                ExcCase("TypeError", lambda c: z3.Not(_drawn_delay(c).is_num()), "delay-not-a-number", unchanged=True,
                        props=("C20",))]
            nrf = C["put"].normal_requires
            C["put"].normal_requires = lambda c: z3.And(nrf(c), _drawn_delay(c).is_num(), _drawn_delay(c).num >= 0)

        # ---- __init__: invalid configurations are rejected, a valid one yields an empty, consistent edge (C20)
        def delay_kind_ok(d):
            return z3.Or(d.tag == V.T_FUNC, d.tag == V.T_GEN, d.tag == V.T_INT, d.tag == V.T_FLOAT, d.tag == V.T_BOOL,
                         d.tag == V.T_NONE)

        def cap_ok(c_):
            return z3.And(z3.Or(c_.tag == V.T_INT, c_.tag == V.T_BOOL), c_.num > 0)

        def mode_ok(m):
            return z3.And(m.tag == V.T_STR, z3.Or(m.s == V.str_const("FIFO"), m.s == V.str_const("LIFO")))
        iparams = [("env", ("env",), None), ("id", ("dyn",), None), ("capacity", ("dyn",), V.dyn_of(Num(1))),
                   ("delay", ("dyn",), V.dyn_of(Num(0 if cls == "Buffer" else 1)))]
        if cls == "Buffer":
            iparams.append(("mode", ("dyn",), V.dyn_of(VStr("FIFO"))))
        else:
            iparams.append(("transit_delay", ("dyn",), V.dyn_of(Num(0))))

        def init_ok(c):
            conds = [c.args["id"].tag == V.T_STR, cap_ok(c.args["capacity"]), delay_kind_ok(c.args["delay"])]
            if cls == "Buffer":
                conds.append(mode_ok(c.args["mode"]))
            return z3.And(*conds)

        def init_post(c):
            n = c.new
            items = [Clause("capacity-recorded", lambda c: z3.ToReal(n.f["capacity"].t) == c.args["capacity"].num, ("C20", "C01")),
                     Clause("starts-empty", lambda c: z3.And(project(n).f[S.ITEMS].len == 0, project(n).f[S.RD].len == 0),
                            ("C20",)),
                     Clause("unconnected", lambda c: z3.And(n.f["src_node"].isnone, n.f["dest_node"].isnone), ("C20",))]
            if cls == "Buffer":
                items.append(Clause("mode-recorded", lambda c: n.f["mode"].t == c.args["mode"].s, ("C20", "C06")))
            return items
        C["__init__"] = FnContract(
            "__init__", iparams, post=init_post,
            excs=[ExcCase("TypeError", lambda c: c.args["id"].tag != V.T_STR, "id-not-a-string", unchanged=False, props=("C20",)),
                  ExcCase("ValueError", lambda c: z3.And(c.args["id"].tag == V.T_STR, z3.Not(init_ok(c))),
                          "invalid-capacity-mode-or-delay", unchanged=False, props=("C20",))],
            normal_requires=init_ok, uses_inv=False, keeps_inv=True, is_init=True, props=("C20", "C01", "C06"))
        C["__init__"].no_frame = True

        # ---- initial_test / stats collector / final average
        coll = "_buffer_stats_collector" if cls == "Buffer" else "_fleet_stats_collector"
        avgm = tuple(PFX + x for x in ("_weighted_sum", "_last_level_change_time", "_last_num_items",
                                       "time_averaged_num_of_items_in_store"))

        def coll_post(c):
            so = store_state(c.old)
            items = list(stats_post(c))
            if cls == "Buffer":
                # Buffer's collector first brings the store's accumulator up to date
                pc = PostCtx(c.side, so, Proj(lambda: c.new), {}, None, sl, scls)
                items += lift(sl.contracts[scls]["_update_time_averaged_level"].post(pc), pc)
            return items
        C[coll] = FnContract(coll, [], pre=connected, post=coll_post,
                             modifies=(avgfield,) + (avgm if cls == "Buffer" else ()), props=("C18",))

        # ---- update_final_*_avg_content(T): integral of the (piecewise constant) occupancy up to T, divided by T
        fin = "update_final_buffer_avg_content" if cls == "Buffer" else "update_final_fleet_avg_content"

        def fin_post(c):
            o = c.old
            so = store_state(o)
            T = c.args["simulation_end_time"].t
            ws = so.f["_weighted_sum"].t + z3.ToReal(so.f["_last_num_items"].t) * (T - so.f["_last_level_change_time"].t)
            return [
                Def(PFX + "_weighted_sum", Num(ws), ("C18",)),
                Def(PFX + "_last_level_change_time", Num(T), ("C18",)),
                Def(PFX + "_last_num_items", Num(S.held(so, sp)), ("C18",)),
                Clause("time-average-is-integral-over-T", lambda c: z3.Implies(
                    T > 0, c.new.f[avgfield].t == ws / T), ("C18",)),
            ]
        C[fin] = FnContract(
            fin, [("simulation_end_time", ("num", "real"), None)],
            pre=lambda st, args: connected(st, args) + [("finalised-at-the-current-time", args["simulation_end_time"].t == st.now)],
            post=fin_post, modifies=(avgfield,) + avgm, props=("C18",))
        return C


def _conveyor_contracts(lib, cls, C, passthrough, connected, store_state, avgfield):
    """ConveyorBelt.put / get / _conveyor_stats_collector (both conveyor classes).

    C12 (mechanism "delay = item_length*capacity/speed (continuous), capacity*delay (slotted)"): put stamps the entry
    time, hands the belt store the pair (item, full belt travel time), and -- continuous belt -- tells a stalled belt
    about the new item; get stamps the exit time.  The one-shot signalling events of the continuous conveyor are
    assumed re-armed by its behaviour process (A-rearm, unchecked: behaviour is not under contract)."""
    cont = cls == "CConveyor"
    for nm in ("reserve_put_cancel", "reserve_get_cancel"):
        C.pop(nm, None)      # the conveyor edges have no cancel methods
    _conveyor_init(lib, cls, C)
    _conveyor_state_contract(lib, cls, C)

    def travel(st):
        if cont:
            return st.f["length"].t * z3.ToReal(st.f["capacity"].t) / st.f["speed"].t
        return z3.ToReal(st.f["capacity"].t) * st.f["delay"].t

    def stats_post(c):
        return [Clause("stats-show-the-store-average",
                       lambda c: c.new.f[avgfield].t == c.new.f[PFX + "time_averaged_num_of_items_in_store"].t, ("C18",))]
    C["_conveyor_stats_collector"] = FnContract("_conveyor_stats_collector", [], pre=connected, post=stats_post,
                                                modifies=(avgfield,), props=("C18",))

    def rearmed(st, names):
        return [("A-rearm.%s: the behaviour process has re-armed the one-shot event" % n,
                 z3.Not(S.trig(st, st.f[n].t))) for n in names] if cont else []

    def put_pre(st, args):
        x = args["item"].t
        ss = store_state(st)
        out = connected(st, args) + [
            ("A-distinct.not-in-transit", V.forall_idx(ss.f[S.ITEMS], lambda i, y: y.items[0].t != x, "A-distinct.It")),
            ("A-distinct.not-ready", V.forall_idx(ss.f[S.RD], lambda i, y: y.t != x, "A-distinct.Rd"))]
        if cont:
            out.append(("A-item-length: flow items are as long as the conveyor's item_length",
                        z3.Select(st.heap_arr("length"), x) == st.f["length"].t))
        return out + rearmed(st, ("item_arrival_event", "put_events_available"))

    def put_extra(c):
        o, n = c.old, c.new
        x = c.args["item"].t
        so = store_state(o)
        out = stats_post(c) + [
            Clause("entry-time-stamped-now", lambda c: z3.Select(n.heap_arr("conveyor_entry_time"), x) == o.now, ("C12",)),
            Clause("stored-with-the-full-belt-travel-time", lambda c: z3.And(
                store_state(n).f[S.ITEMS].at(so.f[S.ITEMS].len).items[0].t == x,
                store_state(n).f[S.ITEMS].at(so.f[S.ITEMS].len).items[1].t == travel(o)), ("C12",))]
        if cont:
            stalled = z3.Or(*[z3.And(o.f["state"].t == V.str_const(sname),
                                     o.f["accumulating"].t == (1 if sname == "STALLED_ACCUMULATING_STATE" else 0))
                              for sname in STALLED])
            told = [k for k in n.ghost.get("store_calls", [])[len(o.ghost.get("store_calls", [])):]
                    if k[0] == "handle_new_item_during_interruption"]
            # callee side only: (a caller gets no information about the bookkeeping call)
            out.append(Structural("a-stalled-belt-is-told-about-the-new-item",
                                  lambda c: _told_ok(c, stalled, len(told)), ("C12",), caller_effect=lambda c: None))
        return out
    C["put"] = passthrough("put", [("event", S.EV, None), ("item", S.IT, None)], ("C01", "C02", "C07", "C12", "C18"),
                           ("bool",), extra_pre=put_pre, extra_post=put_extra,
                           wrap_item=lambda c: V.VTuple([c.args["item"], Num(travel(c.old))]))
    C["put"].modifies = C["put"].modifies + (avgfield,)
    C["put"].heap_modifies = tuple(C["put"].heap_modifies) + ("conveyor_entry_time", "triggered")

    def get_pre(st, args):
        return connected(st, args) + rearmed(st, ("get_events_available",))

    def get_extra(c):
        return stats_post(c) + [Clause("exit-time-stamped-now", lambda c: z3.Select(
            c.new.heap_arr("conveyor_exit_time"), c.res.t) == c.old.now, ("C12", "C18"))]
    C["get"] = passthrough("get", [("event", S.EV, None)], ("C02", "C06", "C07", "C12", "C18"), S.IT, extra_pre=get_pre,
                           extra_post=get_extra)
    C["get"].modifies = C["get"].modifies + (avgfield,) + tuple(PFX + x for x in (
        "_weighted_sum", "_last_level_change_time", "_last_num_items", "time_averaged_num_of_items_in_store"))
    C["get"].heap_modifies = tuple(C["get"].heap_modifies) + ("conveyor_exit_time", "triggered")


def _conveyor_init(lib, cls, C):
    """constructors of the two conveyor edges.  Documented domain (precondition): slot delay / speed / lengths > 0.
    C12: the travel time handed to the belt store by put() is capacity*delay (slotted) resp.
    item_length*capacity/speed (continuous); for the continuous belt the statement wants conveyor_length/speed,
    i.e. item_length*capacity == conveyor_length (finding D8 when the length is not an integral multiple)."""
    cont = cls == "CConveyor"
    beh = FnContract("behaviour", [], is_generator=True, props=("C12",))
    beh.assumed = True          # state machine with one-shot events and interrupts: NOT verified
    C["behaviour"] = beh

    def cap_of(c):
        if not cont:
            return None
        L, il = c.args["conveyor_length"].t, c.args["item_length"].t
        ce = z3.ToReal(-z3.ToInt(-L))
        q = ce / il
        return z3.If(q >= 0, z3.ToInt(q), -z3.ToInt(-q))

    def id_ok(c):
        return c.args["id"].tag == V.T_STR

    def cap_ok(c):
        if cont:
            return cap_of(c) >= 1
        cap = c.args["capacity"]
        return z3.And(z3.Or(cap.tag == V.T_INT, cap.tag == V.T_BOOL), cap.num > 0)

    def post(c):
        n = c.new
        ss = project(n)
        items = [Clause("starts-empty", lambda c: z3.And(ss.f[S.ITEMS].len == 0, ss.f[S.RD].len == 0), ("C20", "C12")),
                 Clause("unconnected", lambda c: z3.And(n.f["src_node"].isnone, n.f["dest_node"].isnone), ("C20",)),
                 Clause("starts-idle", lambda c: n.f["state"].t == V.str_const("IDLE_STATE"), ("C12",)),
                 Structural("starts-its-behaviour-process", lambda c: len(
                     [x for x in c.new.ghost.get("spawned", []) if x[0] == "behaviour"]) == 1, ("C20",))]
        if cont:
            items += [
                Clause("capacity-is-the-number-of-item-lengths-on-the-belt", lambda c: n.f["capacity"].t == cap_of(c), ("C12", "C01")),
                Clause("speed-and-item-length-recorded", lambda c: z3.And(
                    n.f["speed"].t == c.args["speed"].t, n.f["length"].t == c.args["item_length"].t,
                    n.f["conveyor_length"].t == c.args["conveyor_length"].t), ("C12",)),
                Clause("travel-time-is-belt-length-over-speed", lambda c: n.f["length"].t * z3.ToReal(n.f["capacity"].t)
                       == c.args["conveyor_length"].t, ("C12",))]
        else:
            items += [Clause("capacity-recorded", lambda c: z3.ToReal(n.f["capacity"].t) == c.args["capacity"].num, ("C20", "C01", "C12")),
                      Clause("slot-delay-recorded", lambda c: n.f["delay"].t == c.args["delay"].t, ("C12",))]
        return items
    if cont:
        params = [("env", ("env",), None), ("id", ("dyn",), None), ("conveyor_length", ("num", "real"), None),
                  ("speed", ("num", "real"), None), ("item_length", ("num", "real"), None), ("accumulating", ("num", "int"), None)]
        pre = lambda st, args: [("documented-domain", z3.And(args["conveyor_length"].t > 0, args["speed"].t > 0,
                                                              args["item_length"].t > 0))]
    else:
        params = [("env", ("env",), None), ("id", ("dyn",), None), ("capacity", ("dyn",), None),
                  ("delay", ("num", "real"), None), ("accumulating", ("num", "int"), None)]
        pre = lambda st, args: [("documented-domain", args["delay"].t > 0)]
    con = FnContract(
        "__init__", params, pre=pre, post=post,
        excs=[ExcCase("TypeError", lambda c: z3.Not(id_ok(c)), "id-not-a-string", unchanged=False, props=("C20",)),
              ExcCase("ValueError", lambda c: z3.And(id_ok(c), z3.Not(cap_ok(c))), "no-room-for-a-single-item", unchanged=False,
                      props=("C20",))],
        normal_requires=lambda c: z3.And(id_ok(c), cap_ok(c)),
        uses_inv=False, keeps_inv=True, is_init=True, props=("C20", "C12", "C01"))
    con.no_frame = True
    C["__init__"] = con


def _conveyor_state_contract(lib, cls, C):
    """set_conveyor_state(new_state): the state is recorded; entering a stalled state from a running one plans the
    interruptions (exactly one selective_interrupt), leaving a stalled state for a running one fires the pending
    resume signal (so every waiting mover continues) -- C12/C13 protocol at the level of 'which belt-store operation
    is invoked when'; the planners themselves are assumed."""
    cont = cls == "CConveyor"
    RUN = ("MOVING_STATE", "IDLE_STATE")

    def isin(t, names):
        return z3.Or(*[t == V.str_const(x) for x in names])

    def post(c):
        o, n = c.old, c.new
        os_, ns_ = o.f["state"].t, c.args["new_state"].t
        stalls = z3.And(isin(os_, RUN), isin(ns_, STALLED))
        resumes = z3.And(isin(os_, STALLED), isin(ns_, RUN))
        calls = [k[0] for k in n.ghost.get("store_calls", [])[len(o.ghost.get("store_calls", [])):]]
        nsel = calls.count("selective_interrupt")
        nres = calls.count("resume_all_move_processes")
        so = project(o)
        items = [Clause("state-recorded", lambda c: n.f["state"].t == ns_, ("C12",)),
                 Structural("a-stall-plans-the-interruptions-once", lambda c: (stalls if nsel == 1 else z3.Not(stalls))
                            if nsel <= 1 else z3.BoolVal(False), ("C12",), caller_effect=lambda c: None),
                 Structural("leaving-a-stall-resumes-the-movers", lambda c: (resumes if nres == 1 else z3.Not(resumes))
                            if nres <= 1 else z3.BoolVal(False), ("C12",), caller_effect=lambda c: None),
                 Clause("leaving-a-stall-fires-the-pending-resume-signal", lambda c: z3.Implies(
                     resumes, S.trig(project(n), so.f["resume_event"].t)), ("C12",))]
        if cont:
            acc = o.f["accumulating"].t != 0
            fl0 = so.f["noaccumulation_mode_on"].t
            items.append(Clause("non-accumulating-flag-follows-the-stall", lambda c: project(n).f["noaccumulation_mode_on"].t == z3.If(
                z3.And(stalls, z3.Not(acc)), True, z3.If(z3.And(resumes, z3.Not(acc)), False, fl0)), ("C12",)))
        return items
    mods = ("state", PFX + "resume_event", PFX + "active_move_processes") + (
        (PFX + "noaccumulation_mode_on", PFX + "active_delayed_interrupt_processes") if cont else ())
    C["set_conveyor_state"] = FnContract(
        "set_conveyor_state", [("new_state", ("str",), None)], post=post, modifies=mods, heap_modifies=("triggered",),
        allocates=True, props=("C12", "C20"))


def _told_ok(c, stalled, ncalls):
    """the interruption handler of the belt store is called exactly when the conveyor is stalled"""
    if ncalls > 1:
        return z3.BoolVal(False)
    return stalled if ncalls == 1 else z3.Not(stalled)


def _consults_ok(c, d):
    """the source d was consulted exactly once if it is a generator/callable, and not at all otherwise;
    nothing else was consulted"""
    cs = c.new.ghost.get("consults", [])
    cs0 = c.old.ghost.get("consults", [])
    new = cs[len(cs0):]
    drawn = z3.Or(d.tag == V.T_GEN, d.tag == V.T_FUNC)
    count = z3.Sum([z3.If(x[3], 1, 0) for x in new]) if new else z3.IntVal(0)
    same = [z3.Implies(x[3], x[1] == d.oid) for x in new]
    return z3.And(count == z3.If(drawn, 1, 0), *same)


def _drawn_delay(c):
    """the delay value used by this call: the last consult result, or the constant"""
    cs = c.new.ghost.get("consults", []) if c.new is not None else []
    cs0 = c.old.ghost.get("consults", [])
    if len(cs) > len(cs0):
        last = cs[-1]
        return V.ite(last[3], last[2], c.old.f["delay"])
    if c.side == "caller":
        if "dval" not in c._ghosts:
            c._ghosts["dval"] = VDyn("dv!%s" % logic.fresh("n").decl().name().split("!")[1])
        return c._ghosts["dval"]
    return c.old.f["delay"]


def _agrees(lib, c, rname):
    """truth(can_x()) == triggered(token of a reserve_x() issued in the same state), by the store's contract"""
    cls = c.cls
    scls = PROFILES[cls]["store"]
    so = project(c.old)
    con = lib.storelib.contracts[scls][rname]
    s2 = so.fork()
    dargs = {pn: default for (pn, kind, default) in con.params if default is not None}
    pc = PostCtx("caller", so, s2, dargs, None, lib.storelib, scls)
    from pyvc.contract import _build_new_state
    res = _build_new_state(con, pc, con.post(pc), 0)
    hyp = logic.conj(s2.pc[len(so.pc):])
    # the contract's post clauses may contain quantified facts; only the quantifier-free ones are needed here
    return z3.Implies(hyp, V.truth(c.res) == S.trig(s2, res.t))


def make_lib():
    return EdgeLib()
