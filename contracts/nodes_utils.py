"""contracts.nodes_utils -- utils/utils.py edge selectors (C15) and the flow-item helpers"""
import ast
import z3
from pyvc import values as V
from pyvc import logic
from pyvc.logic import Forall
from pyvc.contract import FnContract, Def, Clause, ExcCase, Structural
from pyvc.execute import Exc, Outcome
from pyvc.state import HEAP_SCHEMA
from pyvc.values import Num, VObj, VBool, VStr, VOpaque, NONE, SList, Unsupported, VDyn, VOpt


def _n():
    return logic.fresh("n").decl().name().split("!")[1]


class SelectorYields:
    """generator that yields edge indices (consumed with next()).  Between two next() calls anything outside the
    generator may change: attributes of the node object and the number of its edges."""

    def __init__(self, lib, cls, con, old, args):
        self.lib, self.con, self.args = lib, con, args

    def on_yield(self, ex, ordinal, ynode, value, st):
        ctx = ex.ctx
        v = ex.deref(value, st)
        spec = self.con.yield_spec
        for nm, g in spec(ex, st, v):
            ctx.oblige("yield%d.%s" % (ordinal, nm), st, [g], "yield", ynode.lineno, ("C15",))
        s = st.fork()
        tag = "y%s" % _n()
        s.ghost["yielded"] = s.ghost.get("yielded", 0) + 1
        s.ghost["last_yield"] = v
        s.ghost["last_n"] = st.ghost.get("cur_n")
        # everything reachable through the node may have changed
        for attr in list(s.h):
            if attr.startswith("nodeattr:"):
                s.havoc_heap(attr, tag)
        s.ghost["epoch"] = s.ghost.get("epoch", 0) + 1
        return [(NONE, s)]


class SelectorLoop:
    variant = None
    props = ("C15",)

    def havoc(self, ex, st, node, ordinal):
        tag = "lh%s" % _n()
        for n in ast.walk(node):
            if isinstance(n, ast.Name) and isinstance(n.ctx, ast.Store):
                cur = st.loc.get(n.id)
                if isinstance(cur, Num):
                    st.loc[n.id] = Num(z3.Int("%s.%s" % (tag, n.id)))
                else:
                    st.loc[n.id] = None
        for attr in list(st.h):
            if attr.startswith("nodeattr:"):
                st.havoc_heap(attr, tag)
        st.ghost["first_round"] = z3.Bool(tag + ".first")
        st.ghost["prev_yield"] = z3.Int(tag + ".prev")
        st.ghost["prev_n"] = z3.Int(tag + ".prevn")
        st.ghost["yielded"] = 0

    def inv(self, ex, entry, st, mode):
        if mode == "assume" or entry is st:
            return []
        # back edge: remember what was yielded in this round for the next one (checked at the next yield through the
        # loop variable relation below)
        return []


def install(lib):
    from contracts.nodes import PROFILES
    C = lib.contracts

    def edges_of(ex, st, node):
        """getattr(node, f"{edge_type}_edges"): the current edge list of the node (fresh at every evaluation)"""
        n = z3.Int("nedges!%s" % _n())
        st.assume(n >= 1)
        st.ghost["cur_n"] = n
        return SList(n, lambda i: VObj(z3.IntVal(0) + i, "edge"), ("obj", "edge"))
    lib.edges_of = edges_of

    # RoundRobin: yields 0 first; after having yielded i with n edges present it yields i+1, or 0 when i+1 reaches n
    def rr_yield(ex, st, v):
        if not isinstance(v, Num):
            return [("yields-an-index", z3.BoolVal(False))]
        k = st.ghost.get("yielded", 0)
        out = []
        if "first_round" in st.ghost:
            # arbitrary round of the loop: relation to the previous round is carried by the loop variable itself:
            # we check the *step function* on the back edge instead (see finish)
            pass
        else:
            out.append(("first-index-is-0", v.t == 0))
        return out
    rr = FnContract("RoundRobin_edge_selector", [("node", ("obj", "nodeobj"), None), ("env", ("env",), None),
                                                 ("edge_type", ("str",), None)],
                    is_generator=True, uses_inv=False, keeps_inv=False, props=("C15",))
    rr.has_normal_exit = False
    rr.no_frame = True
    rr.yield_spec = rr_yield
    rr.custom_yields = SelectorYields
    rr.loops = {0: RoundRobinLoop()}
    C["utils"]["RoundRobin_edge_selector"] = rr

    def rnd_yield(ex, st, v):
        n = st.ghost.get("cur_n")
        if not isinstance(v, Num) or n is None:
            return [("yields-an-index", z3.BoolVal(False))]
        return [("index-in-range", z3.And(0 <= v.t, v.t < n))]
    rnd = FnContract("Random_edge_selector", [("node", ("obj", "nodeobj"), None), ("env", ("env",), None),
                                              ("edge_type", ("str",), None)],
                     is_generator=True, uses_inv=False, keeps_inv=False, props=("C15",))
    rnd.has_normal_exit = False
    rnd.no_frame = True
    rnd.yield_spec = rnd_yield
    rnd.custom_yields = SelectorYields
    rnd.loops = {0: SelectorLoop()}
    C["utils"]["Random_edge_selector"] = rnd

    # get_edge_selector(sel_type, node, env, edge_type): the model used by reset() (nodes_sl.builtin)
    def known(c):
        t = c.args["sel_type"]
        return z3.Or(V.eq(t, VStr("RANDOM")), V.eq(t, VStr("ROUND_ROBIN")))

    def side_ok(c):
        # str.lower is an uninterpreted function that is exact on the interned constants (pyvc/execute.py)
        low = z3.Function("str_lower", z3.IntSort(), z3.IntSort())
        e = low(c.args["edge_type"].t)
        return z3.Or(e == V.str_const("in"), e == V.str_const("out"))

    def ges_result(c):
        r = c.res
        from pyvc.execute import VGen
        if not isinstance(r, VGen):
            return z3.BoolVal(False)
        t = c.args["sel_type"]
        want = {"Random_edge_selector": "RANDOM", "RoundRobin_edge_selector": "ROUND_ROBIN"}.get(r.name)
        if want is None:
            return z3.BoolVal(False)
        a = r.args
        node_ok = "node" in a and isinstance(a["node"], VObj) and a["node"].t.eq(c.args["node"].t)
        return z3.And(V.eq(t, VStr(want)), z3.BoolVal(bool(node_ok)))
    ges = FnContract(
        "get_edge_selector", [("sel_type", ("str",), None), ("node", ("obj", "nodeobj"), None), ("env", ("env",), None),
                              ("edge_type", ("str",), None)],
        excs=[ExcCase("ValueError", lambda c: z3.And(side_ok(c), z3.Not(known(c))), "unknown-selection-type", unchanged=True,
                      props=("C20", "C15")),
              ExcCase("AssertionError", lambda c: z3.Not(side_ok(c)), "side-is-neither-in-nor-out", unchanged=True, props=("C20",))],
        normal_requires=lambda c: z3.And(side_ok(c), known(c)),
        post=lambda c: [Structural("returns-the-selector-of-that-name-for-this-node", ges_result, ("C15",))],
        uses_inv=False, keeps_inv=False, result_kind=("opaque",), props=("C15", "C20"))
    ges.no_frame = True
    C["utils"]["get_edge_selector"] = ges
    install_helpers(lib)


class RoundRobinLoop(SelectorLoop):
    """loop of RoundRobin_edge_selector: the value yielded in a round is the loop variable i (a private local,
    nobody else can change it), and at the back edge i has advanced cyclically over the edges present in this round."""

    def havoc(self, ex, st, node, ordinal):
        SelectorLoop.havoc(self, ex, st, node, ordinal)
        st.ghost["i_at_head"] = st.loc["i"].t if isinstance(st.loc.get("i"), Num) else None

    def inv(self, ex, entry, st, mode):
        i = st.loc.get("i")
        out = []
        if not isinstance(i, Num):
            return [("loop-variable-is-a-private-integer", z3.BoolVal(False))]
        out.append(("index-nonneg", i.t >= 0))
        if mode == "assume" or entry is st:
            if entry is st:
                out.append(("starts-at-0", i.t == 0))
            return out
        ih = st.ghost.get("i_at_head")
        n = st.ghost.get("cur_n")
        y = st.ghost.get("last_yield")
        if ih is None or n is None or not isinstance(y, Num):
            return [("one-index-per-round", z3.BoolVal(False))]
        out.append(("yields-exactly-one-index-per-round", z3.BoolVal(st.ghost.get("yielded", 0) == 1)))
        out.append(("yielded-index-is-the-current-position", y.t == ih))
        # statement C15: cyclic successor over the edges present
        out.append(("advances-cyclically", i.t == z3.If(ih + 1 < n, ih + 1, z3.If(ih + 1 == n, 0, (ih + 1) % n))))
        return out


def install_helpers(lib):
    C = lib.contracts
    # Pallet.add_item(item): exactly this item is appended, nothing else changes (C16)
    C["Pallet"]["add_item"] = FnContract(
        "add_item", [("item", ("obj", "item"), None)],
        post=lambda c: [Def("items", V.list_append(c.old.f["items"], c.args["item"]), ("C16", "C03"))],
        modifies=("items",), uses_inv=False, keeps_inv=False, props=("C16", "C03"))
    # BaseFlowItem.update_node_event(node_id, env, event_type): the model used by the node bodies (nodes_proc.item_call)
    def une_post(c):
        o, n = c.old, c.new
        k = c.args["event_type"]
        entry, exit_ = V.eq(k, VStr("entry")), V.eq(k, VStr("exit"))
        return [
            Clause("entry-stamp", lambda c: z3.If(entry, z3.And(z3.Not(n.f["timestamp_node_entry"].isnone),
                                                                n.f["timestamp_node_entry"].val.t == o.now),
                                                  V.eq(n.f["timestamp_node_entry"], o.f["timestamp_node_entry"])), ("C18",)),
            Clause("exit-stamp", lambda c: z3.If(z3.And(z3.Not(entry), exit_),
                                                 z3.And(z3.Not(n.f["timestamp_node_exit"].isnone),
                                                        n.f["timestamp_node_exit"].val.t == o.now),
                                                 V.eq(n.f["timestamp_node_exit"], o.f["timestamp_node_exit"])), ("C18",)),
        ]
    C["BaseFlowItem"]["update_node_event"] = FnContract(
        "update_node_event", [("node_id", ("obj", "nodeid"), None), ("env", ("env",), None), ("event_type", ("str",), VStr("entry"))],
        post=une_post, modifies=("timestamp_node_entry", "timestamp_node_exit", "current_node_id", "stats"),
        uses_inv=False, keeps_inv=False, props=("C18", "C20"))
    # constructors of the flow items (were an assumed model `Item(...)/Pallet(...)` of the node bodies, nodes_sl.builtin):
    # a new flow item carries no time stamp yet (C18: cycle time = reception - creation needs the stamp to be set by the
    # source, not inherited), knows its kind (C16: the splitter tells pallet from item by flow_item_type), and a new
    # pallet is empty (C16)
    def stamps_none(c):
        n = c.new
        return [Clause("no-time-stamp-yet", lambda c: z3.And(n.f["timestamp_creation"].isnone, n.f["timestamp_node_entry"].isnone,
                                                            n.f["timestamp_node_exit"].isnone, n.f["current_node_id"].isnone),
                       ("C18",))]
    for cls_, kind_ in (("BaseFlowItem", None), ("Item", "item"), ("Pallet", "Pallet")):
        def post_(c, kind_=kind_, cls_=cls_):
            out = stamps_none(c)
            if kind_ is not None:
                out.append(Clause("kind-is-" + kind_, lambda c: V.eq(c.new.f["flow_item_type"], VStr(kind_)), ("C16", "C03")))
            if cls_ == "Pallet":
                out.append(Clause("new-pallet-is-empty", lambda c: c.new.f["items"].len == 0, ("C16", "C03")))
            return out
        mods_ = ("timestamp_creation", "source_id", "timestamp_node_entry", "timestamp_node_exit", "current_node_id", "stats") \
            + (("flow_item_type",) if kind_ else ()) + (("items",) if cls_ == "Pallet" else ())
        ci = FnContract("__init__", [("id", ("opaque",), None)], post=post_, uses_inv=False, keeps_inv=False, is_init=True,
                        modifies=mods_, props=("C16", "C18", "C03", "C20"))
        ci.no_frame = True
        C[cls_]["__init__"] = ci
    # BaseFlowItem.set_creation(source_id, env): stamps the creation time with the current time (C18)
    C["BaseFlowItem"]["set_creation"] = FnContract(
        "set_creation", [("source_id", ("obj", "nodeid"), None), ("env", ("env",), None)],
        post=lambda c: [Clause("creation-stamp-is-now", lambda c: z3.And(
            z3.Not(c.new.f["timestamp_creation"].isnone), c.new.f["timestamp_creation"].val.t == c.old.now), ("C18",))],
        modifies=("timestamp_creation", "source_id"), uses_inv=False, keeps_inv=False, props=("C18",))
