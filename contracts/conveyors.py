"""contracts.conveyors -- the query methods of the two ConveyorBelt edge classes and the belt geometry (C12, C09, C20).
Only straight-line methods are under contract here; put/get/behaviour/set_conveyor_state (one-shot events, interrupts,
pattern analysis) are NOT verified (see DESIGN.md)."""
import z3
from pyvc import values as V
from pyvc import logic
from pyvc.state import State
from pyvc.contract import FnContract, Def, DefRes, Clause, ExcCase
from pyvc.execute import Exc, Outcome, FieldRef, SelfRef, EnvRef
from pyvc.values import Num, VObj, VBool, VStr, VOpaque, NONE, SList, Unsupported, VDyn, VOpt
from pyvc.lib_base import LibBase
from contracts.edges import SubRef

PFX = "belt."
PROFILES = {
    "CConveyor": dict(file="edges/continuous_conveyor.py", cls="ConveyorBelt"),
    "SConveyor": dict(file="edges/slotted_conveyor.py", cls="ConveyorBelt"),
}
IT = ("obj", "item")


class ConveyorLib(LibBase):
    def __init__(self):
        super().__init__()
        self.contracts = {k: self._make(k) for k in PROFILES}

    def classes(self):
        return list(PROFILES)

    def profile(self, cls):
        return PROFILES[cls]

    def unit_props(self, cls, fn):
        return set(self.contracts[cls][fn].props)

    def chi(self, cls, name, old, args):
        if name == "always":
            return None
        if name == "length-not-a-multiple-of-item-length":
            L, il = args["conveyor_length"].t, args["item_length"].t
            return z3.Not(z3.Exists([z3.Int("m")], z3.ToReal(z3.Int("m")) * il == L)) if False else z3.BoolVal(True)
        raise KeyError(name)

    def schema(self, cls):
        f = {"capacity": ("num", "int"), "state": ("str",), "accumulating": ("num", "int"),
             PFX + "items": ("list", ("tuple", [IT, ("num", "real")])), PFX + "ready_items": ("list", IT),
             PFX + "reservations_get": ("list", ("obj", "event")), PFX + "reservations_put": ("list", ("obj", "event")),
             PFX + "capacity": ("num", "int")}
        if cls == "CConveyor":
            f.update({"length": ("num", "real"), "conveyor_length": ("num", "real"), "speed": ("num", "real"),
                      "delay": ("num", "real")})
        else:
            f.update({"delay": ("num", "real")})
        return f

    def initial_state(self, cls, fname, con):
        st = State()
        st.now = z3.Real("now")
        st.active = z3.Int("active_process")
        st.next_id = z3.Int("next_id")
        st.assume(st.now >= 0)
        if not con.is_init:
            for nm, kind in self.schema(cls).items():
                st.f[nm] = V.mk_value("s0." + nm, kind)
        return st

    def validity(self, cls, st, con):
        out = []
        for nm, v in st.f.items():
            if isinstance(v, SList):
                out.append(("valid.len." + nm, v.len >= 0))
        return out

    def invariant(self, cls, st, side="prove"):
        return []

    def bind_params(self, cls, fname, fnode, con, st):
        args = {}
        for (nm, kind, default) in con.params:
            args[nm] = EnvRef() if kind[0] == "env" else V.mk_value("arg." + nm, kind)
        return args

    def frame(self, cls, con, old, new):
        from pyvc.contract import unchanged_clauses
        return unchanged_clauses(self, cls, old, new, [f for f in old.f if f not in con.modifies], [])

    def model_to_json(self, st, m, ob):
        return {}

    def self_attr(self, ctx, attr, st):
        if attr == "belt" and any(k.startswith(PFX) for k in st.f):
            return SubRef(PFX)
        return None

    def optional_fields(self, cls):
        # attributes the code reads although no constructor ever creates them (-> AttributeError)
        return ("inp_buf", "out_buf")

    def get_attr_other(self, ex, base, attr, st, lineno):
        if isinstance(base, SubRef):
            key = base.prefix + attr
            if key in st.f:
                v = st.f[key]
                return [(FieldRef(key) if isinstance(v, SList) else v, st)]
            raise Unsupported("belt attribute %s (line %d)" % (attr, lineno))
        return None

    def _make(self, cls):
        C = {}

        def occ(st):
            return st.f[PFX + "items"].len + st.f[PFX + "ready_items"].len
        # C09/C11-style exactness of the probes used by non-blocking nodes.  The code reads self.inp_buf / self.out_buf,
        # attributes that do not exist: every call raises AttributeError (known finding D6).
        C["can_put"] = FnContract("can_put", [], post=lambda c: [Clause("answers-without-error", lambda c: z3.BoolVal(True), ("C09",))],
                                  result_kind=("bool",), props=("C09", "C20"), pure=True)
        C["can_get"] = FnContract("can_get", [], post=lambda c: [Clause("answers-without-error", lambda c: z3.BoolVal(True), ("C10",))],
                                  result_kind=("bool",), props=("C10", "C20"), pure=True)
        C["can_put"].has_normal_exit = False      # D6: on the current tree no path returns (suppresses the reachability
        C["can_get"].has_normal_exit = False      # canary only; the no-AttributeError obligation is the finding)
        occn = "occupancy" if cls == "CConveyor" else "belt_occupancy"
        C[occn] = FnContract(occn, [], post=lambda c: [Clause("counts-moving-and-ready-items", lambda c: V.eq(
            c.res, Num(occ(c.old))), ("C12", "C01"))], result_kind=("num", "int"), props=("C12", "C01"), pure=True)
        C["is_empty"] = FnContract("is_empty", [], post=lambda c: [Clause("exact", lambda c: V.truth(c.res) == (occ(c.old) == 0),
                                                                      ("C12",))], result_kind=("bool",), props=("C12",), pure=True)
        C["is_full"] = FnContract("is_full", [], post=lambda c: [Clause("exact", lambda c: V.truth(c.res) == (
            occ(c.old) == c.old.f[PFX + "capacity"].t), ("C12", "C01"))], result_kind=("bool",), props=("C12", "C01"), pure=True)
        C["is_stalled"] = FnContract("is_stalled", [], post=lambda c: [Clause("head-waits-unreserved", lambda c: V.truth(c.res) == z3.And(
            c.old.f[PFX + "ready_items"].len > 0, c.old.f[PFX + "reservations_get"].len == 0), ("C12",))],
            result_kind=("bool",), props=("C12",), pure=True)
        return C


def make_lib():
    return ConveyorLib()
