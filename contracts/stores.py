"""contracts.stores -- sidecar contracts for the seven reservable store classes.

Nothing here is a copy of repository code: this module states the class
invariant and the pre/postconditions; pyvc executes the *real* method bodies
against them.

Profiles (flags):  prio (priority queues)  ready (explicit binding through
ready_items/reserved_items)  lifo (mode attribute)  filt (filter store)
tuple (items are (item, delay) tuples)  fleet  belt.
"""
import z3
from pyvc import values as V
from pyvc import logic
from pyvc.logic import Forall, Exists, ForallExists
from pyvc.state import State
from pyvc.contract import Lemma, FnContract, Def, DefHeap, DefRes, Clause, ExcCase, Structural, apply_contract
from pyvc.execute import Exc, Outcome, FieldRef, VTimeout, VGen, VAnyOf, VPyList
from pyvc.values import Num, VObj, VBool, VStr, VOpaque, VNone, NONE, SList, Unsupported
from pyvc.lib_base import LibBase

EV = ("obj", "event")
IT = ("obj", "item")

PROFILES = {
    "P": dict(file="base/reservable_priority_req_store.py", cls="ReservablePriorityReqStore", prio=True),
    "R": dict(file="base/reservable_req_store.py", cls="ReservableReqStore"),
    "F": dict(file="base/reservable_priority_req_filter_store.py", cls="ReservablePriorityReqFilterStore",
              prio=True, filt=True, noavg=True),
    "B": dict(file="base/buffer_store.py", cls="BufferStore", ready=True, lifo=True, tuple=True, mover=True),
    "L": dict(file="base/fleet_store.py", cls="FleetStore", prio=True, ready=True, fleet=True),
    "S": dict(file="base/slotted_belt_store.py", cls="BeltStore", prio=True, ready=True, lifo=True, tuple=True,
              belt=True, mover=True),
    "C": dict(file="base/belt_store.py", cls="BeltStore", ready=True, tuple=True, belt=True, mover=True),
}
for _k, _p in PROFILES.items():
    for _f in ("prio", "ready", "lifo", "filt", "tuple", "fleet", "belt", "mover", "noavg"):
        _p.setdefault(_f, False)
    _p["key"] = _k

ENABLED = ("P", "R", "F", "B", "L", "S", "C")

QP, RP, QG, RG, RE, ITEMS, RD, RI = ("reserve_put_queue", "reservations_put", "reserve_get_queue",
                                      "reservations_get", "reserved_events", "items", "ready_items",
                                      "reserved_items")
EVENT_LISTS = (QP, RP, QG, RG)
TAG = {QP: 1, RP: 2, QG: 3, RG: 4}


def held(st, prof):
    n = st.f[ITEMS].len
    if prof["ready"]:
        n = n + st.f[RD].len
    return n


def avail(st, prof):
    return st.f[RD].len if prof["ready"] else st.f[ITEMS].len


def cap_lt(n, cap):
    """n < capacity  (capacity: Num possibly infinite)"""
    return V.num_lt(Num(n), cap)


def cap_le(n, cap):
    return V.num_le(Num(n), cap)


def prio_put(st, e):
    return z3.Select(st.heap_arr("priority_to_put"), e)


def prio_get(st, e):
    return z3.Select(st.heap_arr("priority_to_get"), e)


def trig(st, e):
    return z3.Select(st.heap_arr("triggered"), e)


def owner(st, e):
    return z3.Select(st.heap_arr("requesting_process"), e)


# objects allocated outside the store and never handed to it as request tokens (e.g. a conveyor's own signalling
# events).  Rigid: being foreign is a property of the identity, fixed at allocation; everything the store allocates
# itself is not foreign by definition (assumed at the store's allocation sites).
FOREIGN = z3.Function("foreign", z3.IntSort(), z3.BoolSort())


class StoreLib(LibBase):
    def __init__(self):
        super().__init__()
        self.contracts = {}
        for k in PROFILES:
            self.contracts[k] = self._make_contracts(PROFILES[k])

    def profile(self, cls):
        return PROFILES[cls]

    def enabled_classes(self):
        return ENABLED

    def chi(self, cls, name, old, args):
        """characteristic conditions of known findings (regions in which an obligation is known to fail)"""
        if name == "always":
            return None
        if name == "lifo":
            return z3.Not(self.is_fifo(cls, old))
        if name == "two-waiting":
            return old.f[QG].len >= 2
        if name == "two-put-waiting":
            return old.f[QP].len >= 2
        raise KeyError("unknown chi %r" % name)

    def shards(self, cls, fn):
        if fn in ("move_to_ready_items", "fleet_activation_process") and PROFILES[cls]["fleet"]:
            return 8
        if fn == "move_to_ready_items" and PROFILES[cls]["belt"]:
            return 16
        return None

    def unit_props(self, cls, fn):
        con = self.contracts[cls][fn]
        props = set(con.props) | {"C20"}
        if con.keeps_inv or con.uses_inv:
            props |= {"C01", "C02", "C04", "C05", "C06", "C07", "C18"}
            if cls in ("B", "L"):
                props |= {"C11"}
        if PROFILES[cls]["belt"]:
            props |= {"C12"}
        return props

    # ------------------------------------------------------------------ state
    def schema(self, cls):
        p = PROFILES[cls]
        f = {}
        for nm in (QP, RP, QG, RG, RE):
            f[nm] = ("list", EV)
        f[ITEMS] = ("list", ("tuple", [IT, ("num", "real")])) if p["tuple"] else ("list", IT)
        f["capacity"] = ("num", "int") if p["belt"] else ("num", "intinf")   # conveyors always pass an integer
        if not p["noavg"]:
            f["_last_level_change_time"] = ("num", "real")
            f["_last_num_items"] = ("num", "int")
            f["_weighted_sum"] = ("num", "real")
            f["time_averaged_num_of_items_in_store"] = ("num", "real")
        if p["ready"]:
            f[RD] = ("list", IT)
            f[RI] = ("list", IT)
        if p["lifo"]:
            f["mode"] = ("str",)
        if p["filt"]:
            f["trigger_delay"] = ("num", "real")
            f["delay"] = ("num", "real")
        if p["fleet"]:
            f["delay"] = ("num", "real")
            f["transit_delay"] = ("num", "real")
            f["activate_fleet"] = ("obj", "event")
        if p["belt"]:
            f["active_move_processes"] = ("opaque",)
            f["resume_event"] = ("obj", "event")
            f["noaccumulation_mode_on"] = ("bool",)
            f["one_item_inserted"] = ("bool",)
            f["ready_item_event"] = ("obj", "event")
            if cls == "C":
                f["speed"] = ("num", "real")
                f["accumulation_mode_indicator"] = ("bool",)
                f["active_delayed_interrupt_processes"] = ("opaque",)
            else:
                f["delay"] = ("num", "real")
        return f

    def initial_state(self, cls, fname, con):
        st = State()
        st.now = z3.Real("now")
        st.active = z3.Int("active_process")
        st.next_id = z3.Int("next_id")
        st.assume(st.now >= 0)
        st.assume(st.next_id >= 0)
        if not con.is_init:
            for nm, kind in self.schema(cls).items():
                st.f[nm] = V.mk_value("s0." + nm, kind)
        st.ghost["cls"] = cls
        # P, R and F are general-purpose stores (their items are arbitrary objects, possibly falsy); the other four
        # hold flow items / (item, delay) pairs, which are always truthy
        V.GENERIC_ITEMS[0] = cls in ("P", "R", "F")
        return st

    def len_terms(self, st):
        return [v.len for v in st.f.values() if isinstance(v, SList)]

    def validity(self, cls, st, con):
        """documented domain of the configuration (never assumed silently: listed in evidence)."""
        out = []
        if con.is_init:
            return out
        cap = st.f["capacity"]
        out.append(("valid.capacity", z3.Or(cap.inf, cap.t >= 1) if cap.inf is not None else cap.t >= 1))
        for nm in (QP, RP, QG, RG, RE, ITEMS, RD, RI):
            if nm in st.f:
                out.append(("valid.len." + nm, st.f[nm].len >= 0))
        p = PROFILES[cls]
        if p["belt"]:
            if cls == "C":
                out.append(("valid.speed", st.f["speed"].t > 0))
                out.append(("valid.item-lengths", V.forall_idx(st.f[ITEMS], lambda i, x: z3.Select(
                    st.heap_arr("length"), x.items[0].t) > 0, "lengths")))
            else:
                out.append(("valid.delay", st.f["delay"].t > 0))
                # the flag is only ever written by the slotted ConveyorBelt.behaviour, which never leaves IDLE_STATE
                out.append(("valid.S-flag-off", z3.Not(st.f["noaccumulation_mode_on"].t)))
        return out

    # ------------------------------------------------------------------ invariant
    def invariant(self, cls, st, side="prove"):
        """-> list of (name, clause, props).  Hypothesis side uses inverse functions for distinctness
        (one-variable instances); goal side uses the two-variable form (Skolemised)."""
        p = PROFILES[cls]
        assume = side == "assume"
        f = st.f
        out = []
        Qp, Rp, Qg, Rg, Re, It = f[QP], f[RP], f[QG], f[RG], f[RE], f[ITEMS]
        cap = f["capacity"]
        # I-cap
        out.append(("I-cap", cap_le(Rp.len + held(st, p), cap), ("C01", "C12", "C20") if p["belt"] else ("C01", "C20")))
        # I-sync
        # (C20: the implicit-exception obligations of the helpers are discharged under these clauses, so keeping them is
        #  part of the no-crash proof: a desynchronised pair of lists shows up as an IndexError two calls later)
        out.append(("I-sync.len", Re.len == Rg.len, ("C02", "C20")))
        out.append(("I-sync", V.forall_idx(Re, lambda i, e: e.t == Rg.at(i).t, "I-sync"), ("C02", "C20")))
        # I-bind
        out.append(("I-bind.count", Rg.len <= avail(st, p), ("C02", "C20")))
        if p["ready"]:
            Rd, Ri = f[RD], f[RI]
            out.append(("I-bind.len", Ri.len == Re.len, ("C02", "C20")))
            itobj = (lambda x: x.items[0]) if p["tuple"] else (lambda x: x)
            if assume:
                grd = z3.Function("inv_%s!%s" % (RD, _ctr()), z3.IntSort(), z3.IntSort())
                git = z3.Function("inv_%s!%s" % (ITEMS, _ctr()), z3.IntSort(), z3.IntSort())
                itag = z3.Function("itag!%s" % _ctr(), z3.IntSort(), z3.IntSort())
                st.ghost["inv_rd"] = grd
                st.ghost["inv_it"] = git
                out.append(("I-items.nodup.Rd", V.forall_idx(Rd, lambda i, x: z3.And(grd(x.t) == i, itag(x.t) == 1),
                                                              "nodup.Rd"), ("C02",)))
                out.append(("I-items.nodup.It", V.forall_idx(It, lambda i, x: z3.And(git(itobj(x).t) == i,
                                                                                    itag(itobj(x).t) == 2),
                                                              "nodup.It"), ("C02",)))
                out.append(("I-bind.member", V.forall_idx(Ri, lambda i, x: z3.And(
                    0 <= grd(x.t), grd(x.t) < Rd.len, Rd.at(grd(x.t)).t == x.t), "bind.member"), ("C02",)))
            else:
                out.append(("I-items.nodup.Rd", V.forall_idx2(Rd, Rd, lambda i, j, a, b: a.t != b.t, "nodup.Rd",
                                                               strict_lt=True), ("C02",)))
                out.append(("I-items.nodup.It", V.forall_idx2(It, It, lambda i, j, a, b: itobj(a).t != itobj(b).t,
                                                               "nodup.It", strict_lt=True), ("C02",)))
                out.append(("I-items.nodup.It/Rd", V.forall_idx2(It, Rd, lambda i, j, a, b: itobj(a).t != b.t,
                                                                  "nodup.It/Rd"), ("C02",)))
                hints = [(lambda g: lambda i: g(Ri.at(i).t))(st.ghost["inv_rd"])] if "inv_rd" in st.ghost else []
                out.append(("I-bind.member", ForallExists(
                    lambda i: z3.And(0 <= i, i < Ri.len),
                    lambda i, j: z3.And(0 <= j, j < Rd.len, Rd.at(j).t == Ri.at(i).t), Rd.len, "bind.member",
                    witnesses=hints), ("C02",)))
            out.append(("I-bind.distinct", V.forall_idx2(Ri, Ri, lambda i, j, a, b: a.t != b.t, "bind.distinct",
                                                          strict_lt=True), ("C02",)))
            fifo = self.is_fifo(cls, st)
            out.append(("I-bind.fifo", V.forall_idx(Ri, lambda i, x: z3.Implies(
                fifo, z3.And(i < Rd.len, x.t == Rd.at(i).t)), "bind.fifo"), ("C06", "C12") if p["belt"] else ("C06",)))
        # I-trig
        out.append(("I-trig.Qp", V.forall_idx(Qp, lambda i, e: z3.Not(trig(st, e.t)), "I-trig.Qp"), ("C04", "C07", "C20")))
        out.append(("I-trig.Rp", V.forall_idx(Rp, lambda i, e: trig(st, e.t), "I-trig.Rp"), ("C04", "C07", "C20")))
        out.append(("I-trig.Qg", V.forall_idx(Qg, lambda i, e: z3.Not(trig(st, e.t)), "I-trig.Qg"), ("C04", "C07", "C20")))
        out.append(("I-trig.Rg", V.forall_idx(Rg, lambda i, e: trig(st, e.t), "I-trig.Rg"), ("C04", "C07", "C20")))
        # I-fresh: all events known to the store are allocated
        for nm in EVENT_LISTS:
            out.append(("I-fresh." + nm, V.forall_idx(f[nm], lambda i, e: z3.And(e.t >= 0, e.t < st.next_id),
                                                      "I-fresh." + nm), ("C02", "C07")))
        # I-nodup
        if assume:
            invs = {}
            tagf = z3.Function("tag!%s" % _ctr(), z3.IntSort(), z3.IntSort())
            for nm in EVENT_LISTS:
                g = z3.Function("inv_%s!%s" % (nm, _ctr()), z3.IntSort(), z3.IntSort())
                invs[nm] = g
                out.append(("I-nodup." + nm, V.forall_idx(f[nm], (lambda g: lambda i, e: g(e.t) == i)(g),
                                                          "I-nodup." + nm), ("C02", "C07")))
                out.append(("I-nodup.tag." + nm,
                            V.forall_idx(f[nm], (lambda t: lambda i, e: tagf(e.t) == t)(TAG[nm]), "I-tag." + nm),
                            ("C02", "C07")))
            st.ghost["inv"] = invs
            st.ghost["tag"] = tagf
        else:
            for nm in EVENT_LISTS:
                out.append(("I-nodup." + nm,
                            V.forall_idx2(f[nm], f[nm], lambda i, j, a, b: a.t != b.t, "I-nodup." + nm, strict_lt=True),
                            ("C02", "C07")))
            for a, b in ((QP, RP), (QG, RG), (QP, QG), (QP, RG), (RP, QG), (RP, RG)):
                out.append(("I-nodup.%s/%s" % (a, b),
                            V.forall_idx2(f[a], f[b], lambda i, j, x, y: x.t != y.t, "I-nodup.%s/%s" % (a, b)),
                            ("C02", "C07")))
        for nm in EVENT_LISTS:
            out.append(("I-foreign." + nm, V.forall_idx(f[nm], lambda i, e: z3.Not(FOREIGN(e.t)), "I-foreign." + nm),
                        ("C07", "C12")))
        for k in ("ready_item_event", "resume_event", "activate_fleet"):
            if k in f:
                out.append(("I-foreign." + k, z3.Not(FOREIGN(f[k].t)), ("C07", "C12")))
        if p["fleet"]:
            af = f["activate_fleet"].t
            out.append(("I-fleet.af-allocated", z3.And(af >= 0, af < st.next_id), ("C14",)))
            if assume:
                out.append(("I-fleet.af-distinct", st.ghost["tag"](af) == 0, ("C14",)))
            else:
                for nm in EVENT_LISTS:
                    out.append(("I-fleet.af-distinct." + nm, V.forall_idx(f[nm], lambda i, e: e.t != af, "af-distinct"),
                                ("C14",)))
        if p["belt"]:
            # the belt's own signalling events are never handed out as request tokens
            for evn in ("ready_item_event", "resume_event"):
                be = f[evn].t
                out.append(("I-belt.%s-allocated" % evn, z3.And(be >= 0, be < st.next_id), ("C12", "C07")))
                if assume:
                    out.append(("I-belt.%s-distinct" % evn, st.ghost["tag"](be) == 0, ("C12", "C07")))
                else:
                    for nm in EVENT_LISTS:
                        out.append(("I-belt.%s-distinct.%s" % (evn, nm),
                                    V.forall_idx(f[nm], lambda i, e: e.t != be, "belt-ev-distinct"), ("C12", "C07")))
        if p["belt"]:
            # the resume signal is a one-shot event: the one in the field is always the pending one
            out.append(("I-belt.resume-event-pending", z3.Not(trig(st, f["resume_event"].t)), ("C12", "C20")))
            out.append(("I-belt.own-events-distinct", f["resume_event"].t != f["ready_item_event"].t, ("C12", "C20")))
        if p["belt"] and cls == "C":
            out.append(("I-belt.items-carry-interruption-bookkeeping", V.forall_idx(It, lambda i, x: z3.And(
                z3.Not(z3.Select(st.heap_arr("absent:total_interruption_time"), x.items[0].t)),
                z3.Not(z3.Select(st.heap_arr("absent:interruption_start_time"), x.items[0].t))), "I-belt.attrs"), ("C20", "C12")))
        # I-nlw
        # can_put()/can_get() of the Buffer and Fleet edges are exact only because of these two (C11)
        nlw_props = ("C04", "C11") if cls in ("B", "L") else ("C04",)
        out.append(("I-nlw-put", z3.Implies(Qp.len > 0, z3.Not(self.grantable_put(cls, st))), nlw_props))
        if p["filt"]:
            out.append(("I-nlw-get", self.nlw_get_filter(st), ("C04",)))
        else:
            out.append(("I-nlw-get", z3.Implies(Qg.len > 0, z3.Not(self.grantable_get(cls, st))), nlw_props))
        # I-ord
        out.append(("I-ord.Qp", self.sorted_clause(cls, st, Qp, "put"), ("C05",)))
        out.append(("I-ord.Qg", self.sorted_clause(cls, st, Qg, "get"), ("C05",)))
        # I-avg
        if not p["noavg"]:
            out.append(("I-avg.level", f["_last_num_items"].t == held(st, p), ("C18",)))
            out.append(("I-avg.time", f["_last_level_change_time"].t <= st.now, ("C18",)))
        return out

    def sorted_clause(self, cls, st, q, side):
        p = PROFILES[cls]
        if p["prio"]:
            pr = prio_put if side == "put" else prio_get

            def body(i, j, a, b):
                pa, pb = pr(st, a.t), pr(st, b.t)
                return z3.Or(pa < pb, z3.And(pa == pb, a.t < b.t))
        else:
            def body(i, j, a, b):
                return a.t < b.t
        return V.forall_idx2(q, q, body, "I-ord", strict_lt=True)

    def put_extra(self, cls, c):
        p = PROFILES[cls]
        if p["fleet"]:
            o, n = c.old, c.new
            af = o.f["activate_fleet"].t
            full = V.eq(Num(held(o, p) + 1), o.f["capacity"])
            return [Clause("capacity-trigger", lambda c: trig(n, af) == z3.Or(trig(o, af), full), ("C14",))]
        return []

    def put_extra_mods(self, cls):
        return ()

    def put_extra_heap(self, cls):
        return ("triggered",) if PROFILES[cls]["fleet"] else ()

    def ghost_owner_pos(self, st, x):
        """position in reserved_items of the reservation owning item x (Skolem function of the LIFO clause)"""
        if "owner_pos" not in st.ghost:
            st.ghost["owner_pos"] = z3.Function("owner_pos!%s" % _ctr(), z3.IntSort(), z3.IntSort())
        return st.ghost["owner_pos"](x)

    def expected_timeout(self, cls, con, ordinal, args, st):
        p = PROFILES[cls]
        if p["mover"] and not p["belt"] and con.name == "move_to_ready_items":
            return ("item-delay", args["item"].items[1].t, ("C11",))
        if p["filt"] and con.name == "_add_trigger_event":
            return ("trigger-delay", st.f["trigger_delay"].t, ("C04",))
        if p["fleet"] and con.name == "move_to_ready_items":
            return ("transit-delay", st.f["transit_delay"].t, ("C14",))
        return None

    def rely_stable(self, cls):
        """fields no other process ever writes (frame obligation)"""
        return ("capacity", "mode", "delay", "transit_delay", "trigger_delay", "speed")

    def is_fifo(self, cls, st):
        p = PROFILES[cls]
        if p["lifo"]:
            return st.f["mode"].t == z3.IntVal(V.str_const("FIFO"))
        return z3.BoolVal(True)

    def pos_rd(self, st, x):
        return st.ghost["inv_rd"](x)

    def grantable_put(self, cls, st):
        p = PROFILES[cls]
        room = cap_lt(st.f[RP].len + held(st, p), st.f["capacity"])
        if not p["belt"]:
            return room
        It = st.f[ITEMS]
        last = It.at(It.len - 1).items[0].t
        entry = lambda x: z3.Select(st.heap_arr("conveyor_entry_time"), x)
        if cls == "S":
            flags = z3.Or(z3.Not(st.f["noaccumulation_mode_on"].t), z3.Not(st.f["one_item_inserted"].t))
            spaced = st.now >= entry(last) + st.f["delay"].t
            return z3.If(It.len > 0, z3.And(room, flags, spaced), room)
        first = It.at(z3.IntVal(0)).items[0].t
        tot = lambda x: z3.Select(st.heap_arr("total_interruption_time"), x)
        st.heap_arr("interruption_start_time")
        isn = lambda x: z3.Select(st.h["interruption_start_time?none"], x)
        ist = lambda x: z3.Select(st.heap_arr("interruption_start_time"), x)
        ln = lambda x: z3.Select(st.heap_arr("length"), x)
        tob = lambda x: z3.If(isn(x), st.now - entry(x) - tot(x), st.now - entry(x) - (st.now - ist(x)) - tot(x))
        speed = st.f["speed"].t
        d = tob(last) - ln(last) / speed
        close = z3.And(d < z3.RealVal("0.00001"), -d < z3.RealVal("0.00001"))
        spaced = z3.Or(close, tob(last) > ln(last) / speed)
        capr = z3.ToReal(st.f["capacity"].t)
        head_not_at_exit = z3.Not(tob(first) >= ln(first) * capr / speed)
        mode_ok = z3.Or(st.f["accumulation_mode_indicator"].t, st.f[RD].len == 0)
        return z3.If(It.len > 0, z3.And(room, mode_ok, spaced, head_not_at_exit), room)

    def grantable_get(self, cls, st):
        p = PROFILES[cls]
        return st.f[RG].len < avail(st, p)

    DEFAULT_FILTER = -2

    def filt(self, st, e, x):
        """event e's filter applied to item x.  The store's default filter (age >= trigger_delay) is interpreted;
        a user filter is an uninterpreted, pure, time-independent predicate (assumption A-filter)."""
        f = z3.Select(st.heap_arr("filter"), e)
        uf = _ufilt()
        return z3.If(f == self.DEFAULT_FILTER,
                     st.now >= z3.Select(st.heap_arr("put_time"), x) + st.f["trigger_delay"].t, uf(f, x))

    def nlw_get_filter(self, st):
        Qg, Rg, Re, It = st.f[QG], st.f[RG], st.f[RE], st.f[ITEMS]
        return Forall(1, lambda j: z3.Implies(z3.And(Qg.len > 0, Rg.len < It.len, Re.len <= j, j < It.len),
                                              z3.Not(self.filt(st, Qg.at(0).t, It.at(j).t))), [It.len], "I-nlw-get")

    STRUCT_SKIP = ("I-nlw-put", "I-nlw-get", "I-avg.level", "I-avg.time")

    # ------------------------------------------------------------------ positions (from the assumed inverse functions)
    def pos(self, st, lst, e):
        return st.ghost["inv"][lst](e)

    def is_in(self, st, lst, e):
        """e is an element of event list `lst` of state st (st's invariant must have been assumed)."""
        g = st.ghost["inv"][lst]
        L = st.f[lst]
        return z3.And(0 <= g(e), g(e) < L.len, L.at(g(e)).t == e)

    # ------------------------------------------------------------------ contracts
    def _make_contracts(self, p):
        cls = p["key"]
        lib = self
        C = {}
        skip = self.STRUCT_SKIP

        # ---- _update_time_averaged_level
        def post_avg(c):
            o, n = c.old, c.new
            return [
                Def("_weighted_sum", Num(o.f["_weighted_sum"].t + z3.ToReal(o.f["_last_num_items"].t) *
                                         (o.now - o.f["_last_level_change_time"].t)), ("C18",)),
                Def("_last_level_change_time", Num(o.now), ("C18",)),
                Def("_last_num_items", Num(held(o, p)), ("C18",)),
                Clause("avg-defined", lambda c: z3.Implies(
                    c.old.now > 0, c.new.f["time_averaged_num_of_items_in_store"].t ==
                    c.new.f["_weighted_sum"].t / c.old.now), ("C18",)),
            ]
        if not p["noavg"]:
            C["_update_time_averaged_level"] = FnContract(
                "_update_time_averaged_level", [], post=post_avg, uses_inv=False, keeps_inv=False,
                modifies=("_weighted_sum", "_last_level_change_time", "_last_num_items",
                          "time_averaged_num_of_items_in_store"), props=("C18",))

        # ---- _do_reserve_put(event)
        def pre_do_rp(st, args):
            e = args["event"].t
            pre = [("event-untriggered", z3.Not(trig(st, e))), ("event-is-a-token-of-this-store", z3.Not(FOREIGN(e)))]
            if p["belt"] and cls == "C":
                pre.append(("items-carry-interruption-bookkeeping", V.forall_idx(st.f[ITEMS], lambda i, x: z3.And(
                    z3.Not(z3.Select(st.heap_arr("absent:total_interruption_time"), x.items[0].t)),
                    z3.Not(z3.Select(st.heap_arr("absent:interruption_start_time"), x.items[0].t))), "attrs")))
                pre.append(("speed-positive", st.f["speed"].t > 0))
                pre.append(("len-nonneg", st.f[ITEMS].len >= 0))
            return pre

        def post_do_rp(c):
            o = c.old
            e = c.args["event"]
            g = lib.grantable_put(cls, o)
            pr = ("C01", "C04", "C12") if p["belt"] else ("C01", "C04")
            items = [
                Def(RP, V.ite(g, V.list_append(o.f[RP], e), o.f[RP]), pr),
                DefHeap("triggered", z3.If(g, z3.Store(o.heap_arr("triggered"), e.t, True), o.heap_arr("triggered")), pr),
            ]
            if p["belt"]:
                # statement C12: successive items enter at least one item length (one slot delay) apart.  The admission
                # test only looks at the last item that has ENTERED; a second grant while an earlier granted entry is
                # still pending lets two items enter in the same instant
                items.append(Clause("spacing.granted-only-when-no-other-entry-is-pending",
                                    lambda c: z3.Implies(g, o.f[RP].len == 0), ("C12",)))
            return items
        C["_do_reserve_put"] = FnContract(
            "_do_reserve_put", [("event", EV, None)], pre=pre_do_rp, post=post_do_rp, uses_inv=False,
            keeps_inv=False, modifies=(RP,), heap_modifies=("triggered",), result_kind=("bool",),
            props=("C01", "C04"))

        # ---- _do_reserve_get(event)   (positional profile; explicit profiles override below)
        def post_do_rg(c):
            o = c.old
            e = c.args["event"]
            g = lib.grantable_get(cls, o)
            items = [
                Def(RG, V.ite(g, V.list_append(o.f[RG], e), o.f[RG]), ("C02", "C04")),
                Def(RE, V.ite(g, V.list_append(o.f[RE], e), o.f[RE]), ("C02", "C04")),
                DefHeap("triggered", z3.If(g, z3.Store(o.heap_arr("triggered"), e.t, True), o.heap_arr("triggered")),
                        ("C02", "C04")),
            ]
            return items
        if not p["ready"] and not p["filt"]:
            C["_do_reserve_get"] = FnContract(
                "_do_reserve_get", [("event", EV, None)], pre=pre_do_rp, post=post_do_rg, uses_inv=False,
                keeps_inv=False, modifies=(RG, RE), heap_modifies=("triggered",), result_kind=("bool",),
                props=("C02", "C04"))

        # ---- _trigger_reserve_put(event) / _trigger_reserve_get(event)
        def mk_trigger(side):
            Q, R = (QP, RP) if side == "put" else (QG, RG)
            grantable = lib.grantable_put if side == "put" else lib.grantable_get

            def post(c):
                o, n = c.old, c.new
                k = c.ghost("k", lambda: n.f[R].len - o.f[R].len)
                pref = V.list_slice_to(o.f[Q], k)
                items = [
                    Clause("k-range", lambda c: z3.And(0 <= k, k <= o.f[Q].len), ("C04", "C05")),
                    Def(Q, V.list_slice_from(o.f[Q], k), ("C05",)),
                    Def(R, V.list_concat(o.f[R], pref), ("C05",)),
                ]
                if side == "get":
                    items.append(Def(RE, V.list_concat(o.f[RE], pref), ("C02",)))
                    if p["ready"]:
                        items.append(Clause("Ri-len", lambda c: n.f[RI].len == o.f[RI].len + k, ("C02",)))
                        items.append(Clause("Ri-prefix", lambda c: V.forall_idx(
                            o.f[RI], lambda i, x: n.f[RI].at(i).t == x.t, "Ri-prefix"), ("C02",)))
                items.append(Clause("serves-head-if-possible",
                                    lambda c: z3.Implies(z3.And(o.f[Q].len >= 1, grantable(cls, o)), k >= 1), ("C04",)))
                items.append(Clause("no-grant-without-room",
                                    lambda c: z3.Implies(k >= 1, grantable(cls, o)), ("C01", "C02")))
                items.append(Clause("no-grant-no-event-touched",
                                    lambda c: z3.Implies(k == 0, n.heap_arr("triggered") == o.heap_arr("triggered")),
                                    ("C04", "C07")))
                return items
            mods = (Q, R) + ((RE,) if side == "get" else ()) + ((RI,) if side == "get" and p["ready"] else ())
            return FnContract("_trigger_reserve_" + side, [("event", ("opt", EV), None)], post=post,
                              uses_inv=True, keeps_inv=True, inv_skip=skip, modifies=mods,
                              heap_modifies=("triggered",), props=("C04", "C05"))
        C["_trigger_reserve_put"] = mk_trigger("put")
        C["_trigger_reserve_get"] = mk_trigger("get")

        # ---- reserve_put(priority) / reserve_get(priority)
        def mk_reserve(side):
            Q, R = (QP, RP) if side == "put" else (QG, RG)
            grantable = lib.grantable_put if side == "put" else lib.grantable_get
            prattr = "priority_to_put" if side == "put" else "priority_to_get"
            params = [("priority", ("num", "real"), Num(0))] if p["prio"] else []
            if p["filt"] and side == "get":
                params.append(("filter", ("obj", "filter"), NONE))

            def post(c):
                o, n = c.old, c.new
                e = VObj(o.next_id, "event")
                g = grantable(cls, o)
                items = [
                    DefRes(e, ("C05",)),
                    Clause("fresh-id", lambda c: n.next_id == o.next_id + 1, ("C02",)),
                    Clause("owner", lambda c: owner(n, e.t) == o.active, ("C07",)),
                    Clause("granted-iff-servable", lambda c: trig(n, e.t) == g, ("C04", "C01")),
                    Def(R, V.ite(g, V.list_append(o.f[R], e), o.f[R]), ("C04", "C05")),
                ]
                if p["prio"]:
                    # witness: where the sort put the new request; without a sort call it stayed at the end
                    pos = c.ghost("pos", lambda: _insertion_witness(n))
                    pr = c.args["priority"]
                    items.append(Clause("priority-recorded",
                                        lambda c: z3.Select(n.heap_arr(prattr), e.t) == _real(pr), ("C05",)))
                    oq = o.f[Q]
                    prf = prio_put if side == "put" else prio_get
                    items.append(Clause("stable-position", lambda c: z3.Implies(z3.Not(g), z3.And(
                        0 <= pos, pos <= oq.len)), ("C05",)))
                    items.append(Clause("stable-position.before", lambda c: Forall(1, lambda i: z3.Implies(
                        z3.And(z3.Not(g), 0 <= i, i < pos), prf(o, oq.at(i).t) <= _real(pr)), [oq.len], "before"),
                        ("C05",)))
                    items.append(Clause("stable-position.after", lambda c: Forall(1, lambda i: z3.Implies(
                        z3.And(z3.Not(g), pos <= i, i < oq.len), prf(o, oq.at(i).t) > _real(pr)), [oq.len], "after"),
                        ("C05",)))
                    items.append(Def(Q, V.ite(g, oq, V.list_insert(oq, pos, e)), ("C05",)))
                else:
                    items.append(Def(Q, V.ite(g, o.f[Q], V.list_append(o.f[Q], e)), ("C05",)))
                if side == "get":
                    items.append(Def(RE, V.ite(g, V.list_append(o.f[RE], e), o.f[RE]), ("C02",)))
                return items
            mods = (Q, R) + ((RE,) if side == "get" else ()) + ((RI,) if side == "get" and p["ready"] else ())
            return FnContract("reserve_" + side, params, post=post, modifies=mods,
                              heap_modifies=("triggered", "requesting_process", "resourcename", prattr) if p["prio"]
                              else ("triggered", "requesting_process", "resourcename"),
                              result_kind=EV, props=("C04", "C05"), allocates=True)
        C["reserve_put"] = mk_reserve("put")
        C["reserve_get"] = mk_reserve("get")

        item_kind = ("tuple", [IT, ("num", "real")]) if p["tuple"] else IT

        # ---- ownership test used by put/get:  token is a granted reservation made by the calling process
        def owns(o, lst, e):
            return z3.And(lib.is_in(o, lst, e), owner(o, e) == o.active)

        avg_mods = () if p["noavg"] else ("_weighted_sum", "_last_level_change_time", "_last_num_items",
                                           "time_averaged_num_of_items_in_store")

        def avg_items(c, level_state):
            """effect of one _update_time_averaged_level() call made when the store content is `level_state`"""
            if p["noavg"]:
                return []
            o = c.old
            return [
                Def("_weighted_sum", Num(o.f["_weighted_sum"].t + z3.ToReal(o.f["_last_num_items"].t) *
                                         (o.now - o.f["_last_level_change_time"].t)), ("C18",)),
                Def("_last_level_change_time", Num(o.now), ("C18",)),
                Def("_last_num_items", Num(level_state), ("C18",)),
            ]

        # ---- _do_put / _trigger_put / put
        def put_core(c, with_trigger):
            o, n = c.old, c.new
            e = c.args["put_event"].t
            x = c.args["item"]
            pidx = lib.pos(o, RP, e)
            items = [
                Def(RP, V.list_pop(o.f[RP], pidx), ("C01", "C07")),
                Def(ITEMS, V.list_append(o.f[ITEMS], x), ("C01", "C02")),
                Clause("result-truthy", lambda c: V.truth(c.res), ("C01",)),
            ]
            return items

        def put_excs():
            return [ExcCase("RuntimeError", lambda c: z3.Not(owns(c.old, RP, c.args["put_event"].t)),
                            "no-valid-reservation", unchanged=True, props=("C07",))]

        def put_requires(c):
            return owns(c.old, RP, c.args["put_event"].t)

        if not p["ready"]:
            C["_do_put"] = FnContract(
                "_do_put", [("put_event", EV, None), ("item", item_kind, None)],
                post=lambda c: put_core(c, False), excs=put_excs(), normal_requires=put_requires,
                uses_inv=True, keeps_inv=False, modifies=(RP, ITEMS), result_kind=("bool",), props=("C01", "C07"))
            C["_trigger_put"] = FnContract(
                "_trigger_put", [("put_event", EV, None), ("item", item_kind, None)],
                pre=lambda st, args: [("reservations-nonempty", st.f[RP].len > 0)],
                post=lambda c: put_core(c, False), excs=put_excs(), normal_requires=put_requires,
                uses_inv=True, keeps_inv=False, modifies=(RP, ITEMS), result_kind=("bool",), props=("C01", "C07"))

            def post_put(c):
                o, n = c.old, c.new
                items = put_core(c, True)
                kg = c.ghost("kg", lambda: n.f[RG].len - o.f[RG].len)
                pref = V.list_slice_to(o.f[QG], kg)
                items += [
                    Clause("kg-range", lambda c: z3.And(0 <= kg, kg <= o.f[QG].len), ("C04",)),
                    Def(QG, V.list_slice_from(o.f[QG], kg), ("C04", "C05")),
                    Def(RG, V.list_concat(o.f[RG], pref), ("C04", "C05")),
                    Def(RE, V.list_concat(o.f[RE], pref), ("C02",)),
                ]
                items += avg_items(c, held(o, p) + 1)
                return items
            C["put"] = FnContract(
                "put", [("put_event", EV, None), ("item", item_kind, None)], post=post_put, excs=put_excs(),
                normal_requires=put_requires, modifies=(RP, ITEMS, QG, RG, RE) + avg_mods,
                heap_modifies=("triggered",), result_kind=("bool",), props=("C01", "C02", "C07"))

            # ---- _do_get / _trigger_get / get
            def get_core(c):
                o = c.old
                e = c.args["get_event"].t
                q = lib.pos(o, RG, e)
                return [
                    DefRes(o.f[ITEMS].at(q), ("C02", "C06")),
                    Def(ITEMS, V.list_pop(o.f[ITEMS], q), ("C02",)),
                    Def(RG, V.list_pop(o.f[RG], q), ("C02", "C07")),
                    Def(RE, V.list_pop(o.f[RE], q), ("C02",)),
                ]

            def get_excs():
                return [ExcCase("RuntimeError", lambda c: z3.Not(owns(c.old, RG, c.args["get_event"].t)),
                                "no-valid-reservation", unchanged=True, props=("C07",))]

            def get_requires(c):
                return owns(c.old, RG, c.args["get_event"].t)
            C["_do_get"] = FnContract(
                "_do_get", [("get_event", EV, None)], post=get_core, excs=get_excs(), normal_requires=get_requires,
                uses_inv=True, keeps_inv=False, modifies=(ITEMS, RG, RE), result_kind=IT, props=("C02", "C07"))
            C["_trigger_get"] = FnContract(
                "_trigger_get", [("get_event", EV, None)],
                pre=lambda st, args: [("reservations-nonempty", st.f[RG].len > 0)],
                post=get_core, excs=get_excs(), normal_requires=get_requires,
                uses_inv=True, keeps_inv=False, modifies=(ITEMS, RG, RE), result_kind=IT, props=("C02", "C07"))

            def post_get(c):
                o, n = c.old, c.new
                items = get_core(c)
                kp = c.ghost("kp", lambda: n.f[RP].len - o.f[RP].len)
                pref = V.list_slice_to(o.f[QP], kp)
                items += [
                    Clause("kp-range", lambda c: z3.And(0 <= kp, kp <= o.f[QP].len), ("C04",)),
                    Def(QP, V.list_slice_from(o.f[QP], kp), ("C04", "C05")),
                    Def(RP, V.list_concat(o.f[RP], pref), ("C04", "C05")),
                ]
                items += avg_items(c, held(o, p) - 1)
                return items
            C["get"] = FnContract(
                "get", [("get_event", EV, None)], post=post_get, excs=get_excs(), normal_requires=get_requires,
                modifies=(ITEMS, RG, RE, QP, RP) + avg_mods, heap_modifies=("triggered",), result_kind=IT,
                props=("C02", "C06", "C07"))

        if p["ready"]:
            itobj = (lambda x: x.items[0]) if p["tuple"] else (lambda x: x)

            # ---- _do_reserve_get (explicit binding)
            def post_do_rg_ready(c):
                o, n = c.old, c.new
                e = c.args["event"]
                g = lib.grantable_get(cls, o)
                Rd, Ri = o.f[RD], o.f[RI]
                fifo = lib.is_fifo(cls, o)
                items = [
                    Def(RG, V.ite(g, V.list_append(o.f[RG], e), o.f[RG]), ("C02", "C04")),
                    Def(RE, V.ite(g, V.list_append(o.f[RE], e), o.f[RE]), ("C02", "C04")),
                    DefHeap("triggered", z3.If(g, z3.Store(o.heap_arr("triggered"), e.t, True),
                                               o.heap_arr("triggered")), ("C02", "C04")),
                    Clause("Ri-len", lambda c: n.f[RI].len == Ri.len + z3.If(g, 1, 0), ("C02",)),
                    Clause("Ri-prefix", lambda c: V.forall_idx(Ri, lambda i, x: n.f[RI].at(i).t == x.t, "Ri-prefix"),
                           ("C02",)),
                    # FIFO (statement C06): the new reservation owns the oldest ready item not yet owned
                    Clause("fifo-binds-next-oldest", lambda c: z3.Implies(z3.And(g, fifo),
                           n.f[RI].at(Ri.len).t == Rd.at(Ri.len).t), ("C06", "C02")),
                ]
                # every profile (statement C02): the bound item is a ready item that no other reservation owns
                newit = lambda c: n.f[RI].at(Ri.len).t
                items.append(Clause("binds-a-ready-item", lambda c: z3.Implies(g, z3.And(
                    0 <= lib.pos_rd(o, newit(c)), lib.pos_rd(o, newit(c)) < Rd.len,
                    Rd.at(lib.pos_rd(o, newit(c))).t == newit(c))), ("C02",)))
                items.append(Clause("binds-an-unowned-item", lambda c: V.forall_idx(
                    Ri, lambda i, x: z3.Implies(g, x.t != newit(c)), "unowned"), ("C02",)))
                if p["lifo"]:
                    # LIFO (statement C06): the most recently available item that no reservation owns:
                    # every ready item behind it (newer) is owned already
                    items.append(Clause("lifo-binds-newest-unowned", lambda c: Forall(1, lambda j: z3.Implies(
                        z3.And(g, z3.Not(fifo), lib.pos_rd(o, newit(c)) < j, j < Rd.len),
                        z3.And(0 <= lib.ghost_owner_pos(o, Rd.at(j).t), lib.ghost_owner_pos(o, Rd.at(j).t) < Ri.len,
                               Ri.at(lib.ghost_owner_pos(o, Rd.at(j).t)).t == Rd.at(j).t)), [Rd.len], "lifo-newest"),
                        ("C06",)))
                return items
            C["_do_reserve_get"] = FnContract(
                "_do_reserve_get", [("event", EV, None)],
                pre=lambda st, args: [("event-untriggered", z3.Not(trig(st, args["event"].t))),
                                      ("event-is-a-token-of-this-store", z3.Not(FOREIGN(args["event"].t)))],
                post=post_do_rg_ready, uses_inv=True, keeps_inv=False, inv_skip=skip,
                modifies=(RG, RE, RI), heap_modifies=("triggered",), result_kind=("bool",), props=("C02", "C04", "C06"))

            # ---- _do_put / _trigger_put / put
            def put_core_r(c, with_trigger):
                o, n = c.old, c.new
                e = c.args["put_event"].t
                x = c.args["item"]
                items = [
                    Def(RP, V.list_pop(o.f[RP], lib.pos(o, RP, e)), ("C01", "C07")),
                    Def(ITEMS, V.list_append(o.f[ITEMS], x), ("C01", "C02")),
                    Clause("result-truthy", lambda c: V.truth(c.res), ("C01",)),
                ] + avg_items(c, held(o, p) + 1) + lib.put_extra(cls, c) + ([Structural(
                    "spawns-exactly-one-mover-for-the-item",
                    lambda c: _spawn_ok(c, "move_to_ready_items", "item", c.args["item"]), ("C11", "C01"),
                    caller_effect=lambda c: c.new.ghost.setdefault("spawned", []).append(
                        ("move_to_ready_items", {"item": c.args["item"]})))]
                    if p["mover"] else [])
                if with_trigger:
                    # the get-side trigger may run (nothing became ready, so under I-nlw-get it grants nothing,
                    # but the contract does not depend on that)
                    kg = c.ghost("kg", lambda: n.f[RG].len - o.f[RG].len)
                    pref = V.list_slice_to(o.f[QG], kg)
                    items += [
                        Clause("kg-range", lambda c: z3.And(0 <= kg, kg <= o.f[QG].len), ("C04",)),
                        Def(QG, V.list_slice_from(o.f[QG], kg), ("C04", "C05")),
                        Def(RG, V.list_concat(o.f[RG], pref), ("C04", "C05")),
                        Def(RE, V.list_concat(o.f[RE], pref), ("C02",)),
                        Clause("Ri-len", lambda c: n.f[RI].len == o.f[RI].len + kg, ("C02",)),
                        Clause("Ri-prefix", lambda c: V.forall_idx(o.f[RI], lambda i, y: n.f[RI].at(i).t == y.t,
                                                                   "Ri-prefix"), ("C02",)),
                    ]
                return items

            def put_pre_r(st, args):
                x = itobj(args["item"]).t
                pre = [("A-distinct.not-in-transit", V.forall_idx(st.f[ITEMS], lambda i, y: itobj(y).t != x, "A-distinct.It")),
                       ("A-distinct.not-ready", V.forall_idx(st.f[RD], lambda i, y: y.t != x, "A-distinct.Rd"))]
                if p["tuple"]:
                    pre.append(("delay-nonneg", args["item"].items[1].t >= 0))
                if p["belt"]:
                    # the conveyor edge stamps the entry time before handing the item to its belt store
                    pre.append(("entry-time-stamped-now", z3.Select(st.heap_arr("conveyor_entry_time"), x) == st.now))
                return pre
            inner_trig = p["fleet"]      # FleetStore._do_put runs the get-side trigger itself
            put_mods = (RP, ITEMS) + avg_mods + lib.put_extra_mods(cls)
            inner_mods = put_mods + ((QG, RG, RE, RI) if inner_trig else ())
            inner_heap = lib.put_extra_heap(cls) + (("triggered",) if inner_trig else ())
            # explicit-binding stores: a put adds to `items` (in transit), which no request can be served from, so the
            # full invariant already holds again when _do_put returns
            C["_do_put"] = FnContract(
                "_do_put", [("put_event", EV, None), ("item", item_kind, None)], pre=put_pre_r,
                post=lambda c: put_core_r(c, inner_trig), excs=put_excs(), normal_requires=put_requires,
                uses_inv=True, keeps_inv=True, modifies=inner_mods, heap_modifies=inner_heap,
                result_kind=("bool",), props=("C01", "C07"))
            C["_trigger_put"] = FnContract(
                "_trigger_put", [("put_event", EV, None), ("item", item_kind, None)],
                pre=lambda st, args: [("reservations-nonempty", st.f[RP].len > 0)] + put_pre_r(st, args),
                post=lambda c: put_core_r(c, inner_trig), excs=put_excs(), normal_requires=put_requires,
                uses_inv=True, keeps_inv=True, modifies=inner_mods, heap_modifies=inner_heap,
                result_kind=("bool",), props=("C01", "C07"))
            C["put"] = FnContract(
                "put", [("put_event", EV, None), ("item", item_kind, None)], pre=put_pre_r,
                post=lambda c: put_core_r(c, True),
                excs=put_excs(), normal_requires=put_requires, modifies=put_mods + (QG, RG, RE, RI),
                heap_modifies=("triggered",) + lib.put_extra_heap(cls), result_kind=("bool",),
                props=("C01", "C02", "C07"))

            # ---- _do_get / _trigger_get / get
            def get_core_r(c):
                o = c.old
                e = c.args["get_event"].t
                q = lib.pos(o, RG, e)
                x = o.f[RI].at(q)
                return [
                    DefRes(x, ("C02", "C06")),
                    # (C06: exactly the item handed out leaves ready_items, so the order of the others is undisturbed)
                    Def(RD, V.list_pop(o.f[RD], lib.pos_rd(o, x.t)), ("C02", "C06")),
                    Def(RI, V.list_pop(o.f[RI], q), ("C02", "C06")),
                    Def(RG, V.list_pop(o.f[RG], q), ("C02", "C07")),
                    Def(RE, V.list_pop(o.f[RE], q), ("C02",)),
                ] + avg_items(c, held(o, p) - 1)

            def get_excs_r():
                return [ExcCase("RuntimeError", lambda c: z3.Not(owns(c.old, RG, c.args["get_event"].t)),
                                "no-valid-reservation", unchanged=True, props=("C07",))]

            def get_requires_r(c):
                return owns(c.old, RG, c.args["get_event"].t)
            get_mods = (RD, RI, RG, RE) + avg_mods
            C["_do_get"] = FnContract(
                "_do_get", [("get_event", EV, None)], post=get_core_r, excs=get_excs_r(),
                normal_requires=get_requires_r, uses_inv=True, keeps_inv=False, modifies=get_mods,
                result_kind=IT, props=("C02", "C07"))
            C["_trigger_get"] = FnContract(
                "_trigger_get", [("get_event", EV, None)],
                pre=lambda st, args: [("reservations-nonempty", st.f[RG].len > 0)],
                post=get_core_r, excs=get_excs_r(), normal_requires=get_requires_r,
                uses_inv=True, keeps_inv=False, modifies=get_mods, result_kind=IT, props=("C02", "C07"))

            def post_get_r(c):
                o, n = c.old, c.new
                items = get_core_r(c)
                kp = c.ghost("kp", lambda: n.f[RP].len - o.f[RP].len)
                pref = V.list_slice_to(o.f[QP], kp)
                items += [
                    Clause("kp-range", lambda c: z3.And(0 <= kp, kp <= o.f[QP].len), ("C04",)),
                    Def(QP, V.list_slice_from(o.f[QP], kp), ("C04", "C05")),
                    Def(RP, V.list_concat(o.f[RP], pref), ("C04", "C05")),
                ]
                return items
            C["get"] = FnContract(
                "get", [("get_event", EV, None)], post=post_get_r, excs=get_excs_r(),
                normal_requires=get_requires_r, modifies=get_mods + (QP, RP), heap_modifies=("triggered",),
                result_kind=IT, props=("C02", "C06", "C07"))

            # ---- reserve_get_cancel (explicit binding)
            def post_rgc_r(c):
                o, n = c.old, c.new
                e = c.args["get_event_to_cancel"].t
                inq = lib.is_in(o, QG, e)
                cidx = lib.pos(o, RG, e)
                Rd, Ri = o.f[RD], o.f[RI]
                nres = o.f[RE].len
                fifo = lib.is_fifo(cls, o)
                released = Ri.at(cidx)
                rpos = lib.pos_rd(o, released.t)
                # statement (C06), FIFO: still-reserved items first (order kept), then the released item, then the
                # never-reserved ones in their old order.  Under I-bind.fifo the reserved block is Rd[:nres].
                moved_fifo = V.list_concat(V.list_append(V.list_pop(V.list_slice_to(Rd, nres), cidx), released),
                                           V.list_slice_from(Rd, nres))
                # LIFO: the released item goes back on top of the stack (ahead of every never-reserved item)
                moved_lifo = V.list_append(V.list_pop(Rd, rpos), released)
                moved = V.ite(fifo, moved_fifo, moved_lifo)
                q1 = V.ite(inq, V.list_pop(o.f[QG], lib.pos(o, QG, e)), o.f[QG])
                g1 = V.ite(inq, o.f[RG], V.list_pop(o.f[RG], cidx))
                e1 = V.ite(inq, o.f[RE], V.list_pop(o.f[RE], cidx))
                i1 = V.ite(inq, Ri, V.list_pop(Ri, cidx))
                k = c.ghost("k", lambda: n.f[RG].len - g1.len)
                pref = V.list_slice_to(q1, k)
                return [
                    Clause("k-range", lambda c: z3.And(0 <= k, k <= q1.len), ("C04",)),
                    Def(RD, V.ite(inq, Rd, moved), ("C02", "C06")),
                    Def(QG, V.list_slice_from(q1, k), ("C05", "C07")),
                    Def(RG, V.list_concat(g1, pref), ("C05", "C07")),
                    Def(RE, V.list_concat(e1, pref), ("C02",)),
                    Clause("Ri-len", lambda c: n.f[RI].len == i1.len + k, ("C02",)),
                    Clause("Ri-prefix", lambda c: V.forall_idx(i1, lambda i, x: n.f[RI].at(i).t == x.t, "Ri-prefix"),
                           ("C02",)),
                    Clause("result-truthy", lambda c: V.truth(c.res), ("C07",)),
                ]
            C["reserve_get_cancel"] = FnContract(
                "reserve_get_cancel", [("get_event_to_cancel", EV, None)], post=post_rgc_r,
                excs=[ExcCase("RuntimeError",
                              lambda c: z3.Not(z3.Or(lib.is_in(c.old, QG, c.args["get_event_to_cancel"].t),
                                                     lib.is_in(c.old, RG, c.args["get_event_to_cancel"].t))),
                              "unknown-token", unchanged=True, props=("C07",))],
                normal_requires=lambda c: z3.Or(lib.is_in(c.old, QG, c.args["get_event_to_cancel"].t),
                                                lib.is_in(c.old, RG, c.args["get_event_to_cancel"].t)),
                modifies=(RD, RI, QG, RG, RE), heap_modifies=("triggered",), result_kind=("bool",),
                props=("C02", "C04", "C05", "C06", "C07"))

        if p["mover"] and not p["belt"]:
            def mover_entry(st, args):
                x = args["item"]
                gi = st.ghost["inv_it"]
                k = gi(itobj(x).t)
                return [("rely.item-in-transit", z3.And(0 <= k, k < st.f[ITEMS].len, V.eq(st.f[ITEMS].at(k), x))),
                        ("delay-nonneg", x.items[1].t >= 0)]

            def post_mover(c):
                o, n = c.old, c.new      # o = state at the last resumption
                x = c.args["item"]
                k = o.ghost["inv_it"](itobj(x).t)
                rd1 = V.list_append(o.f[RD], itobj(x))
                kg = c.ghost("kg", lambda: n.f[RG].len - o.f[RG].len)
                kp = c.ghost("kp", lambda: n.f[RP].len - o.f[RP].len)
                pg = V.list_slice_to(o.f[QG], kg)
                pp = V.list_slice_to(o.f[QP], kp)
                return [
                    Def(ITEMS, V.list_pop(o.f[ITEMS], k), ("C02", "C11")),
                    Def(RD, rd1, ("C02", "C11", "C06")),
                    Clause("kg-range", lambda c: z3.And(0 <= kg, kg <= o.f[QG].len), ("C04",)),
                    Clause("kp-range", lambda c: z3.And(0 <= kp, kp <= o.f[QP].len), ("C04",)),
                    Def(QG, V.list_slice_from(o.f[QG], kg), ("C04", "C05")),
                    Def(RG, V.list_concat(o.f[RG], pg), ("C04", "C05")),
                    Def(RE, V.list_concat(o.f[RE], pg), ("C02",)),
                    Def(QP, V.list_slice_from(o.f[QP], kp), ("C04", "C05")),
                    Def(RP, V.list_concat(o.f[RP], pp), ("C04", "C05")),
                    Clause("Ri-len", lambda c: n.f[RI].len == o.f[RI].len + kg, ("C02",)),
                    Clause("Ri-prefix", lambda c: V.forall_idx(o.f[RI], lambda i, y: n.f[RI].at(i).t == y.t, "Ri-prefix"),
                           ("C02",)),
                    Clause("ready-exactly-after-delay",
                           lambda c: n.now == n.ghost.get("entry_now", o.now) + x.items[1].t, ("C11",)),
                ]
            C["move_to_ready_items"] = FnContract(
                "move_to_ready_items", [("item", item_kind, None)], post=post_mover, entry_assume=mover_entry,
                modifies=(ITEMS, RD, QG, RG, RE, RI, QP, RP), heap_modifies=("triggered",),
                is_generator=True, props=("C01", "C02", "C04", "C11"))

        if p["belt"]:
            def phase1(st, x):
                if cls == "S":
                    return st.f["delay"].t
                return z3.Select(st.heap_arr("length"), itobj(x).t) / st.f["speed"].t

            def belt_mover_entry(st, args):
                x = args["item"]
                gi = st.ghost["inv_it"]
                k = gi(itobj(x).t)
                g = st.ghost.get("belt")
                start = g["start"] if g else st.now
                return [("rely.item-in-transit", z3.And(0 <= k, k < st.f[ITEMS].len, V.eq(st.f[ITEMS].at(k), x))),
                        ("delay-nonneg", x.items[1].t >= 0),
                        # put() requires the entry stamp to be `now` and starts this process in the same instant
                        ("mover-starts-at-the-entry-stamp",
                         z3.Select(st.heap_arr("conveyor_entry_time"), itobj(x).t) == start)]

            def post_belt_mover(c):
                o, n = c.old, c.new      # o = state at the last resumption
                x = c.args["item"]
                k = o.ghost["inv_it"](itobj(x).t)
                rd1 = V.list_append(o.f[RD], itobj(x))
                kg = c.ghost("kg", lambda: n.f[RG].len - o.f[RG].len)
                kp = c.ghost("kp", lambda: n.f[RP].len - o.f[RP].len)
                pg = V.list_slice_to(o.f[QG], kg)
                pp = V.list_slice_to(o.f[QP], kp)
                g = n.ghost.get("belt") or belt_ghost(n, o)
                T = x.items[1].t
                return [
                    Def(ITEMS, V.list_pop(o.f[ITEMS], k), ("C02", "C12")),
                    Def(RD, rd1, ("C02", "C12", "C06")),
                    Clause("kg-range", lambda c: z3.And(0 <= kg, kg <= o.f[QG].len), ("C04",)),
                    Clause("kp-range", lambda c: z3.And(0 <= kp, kp <= o.f[QP].len), ("C04",)),
                    Def(QG, V.list_slice_from(o.f[QG], kg), ("C04", "C05")),
                    Def(RG, V.list_concat(o.f[RG], pg), ("C04", "C05")),
                    Def(RE, V.list_concat(o.f[RE], pg), ("C02",)),
                    Def(QP, V.list_slice_from(o.f[QP], kp), ("C04", "C05")),
                    Def(RP, V.list_concat(o.f[RP], pp), ("C04", "C05")),
                    Clause("Ri-len", lambda c: n.f[RI].len == o.f[RI].len + kg, ("C02",)),
                    Clause("Ri-prefix", lambda c: V.forall_idx(o.f[RI], lambda i, y: n.f[RI].at(i).t == y.t, "Ri-prefix"),
                           ("C02",)),
                    # C12: the item is offered only after it has *moved* for the full belt travel time
                    Clause("travel.clock", lambda c: n.now == g["start"] + g["moved"] + g["waited"], ("C12",)),
                    Clause("travel.moved-at-least-the-belt-travel-time", lambda c: g["moved"] >= T, ("C12",)),
                    Clause("travel.moved-exactly-the-belt-travel-time",
                           lambda c: z3.Implies(T >= phase1(n, x), g["moved"] == T), ("C12",)),
                    Clause("travel.never-stopped-means-exact-arrival",
                           lambda c: z3.Implies(z3.Not(g["interrupted"]), g["waited"] == 0), ("C12",)),
                    Clause("travel.waiting-nonneg", lambda c: g["waited"] >= 0, ("C12",)),
                ]
            mods = (ITEMS, RD, QG, RG, RE, RI, QP, RP, "active_move_processes")
            mv = FnContract(
                "move_to_ready_items", [("item", item_kind, None)], post=post_belt_mover, entry_assume=belt_mover_entry,
                modifies=mods, heap_modifies=("triggered", "total_interruption_time", "interruption_start_time",
                                              "conveyor_ready_item_entry_time", "absent:total_interruption_time",
                                              "absent:interruption_start_time"),
                is_generator=True, props=("C01", "C02", "C04", "C12"))
            mv.phase1 = phase1
            C["move_to_ready_items"] = mv
            # resume_all_move_processes(): fires the pending resume signal and arms a new one
            def post_resume(c):
                o, n = c.old, c.new
                return [Clause("pending-resume-signal-fired", lambda c: trig(n, o.f["resume_event"].t), ("C12",)),
                        Clause("new-resume-signal-armed", lambda c: z3.And(n.f["resume_event"].t == o.next_id,
                                                                          z3.Not(trig(n, n.f["resume_event"].t)),
                                                                          n.next_id == o.next_id + 1), ("C12",)),
                        Clause("nothing-else-triggered", lambda c: n.heap_arr("triggered") == z3.Store(z3.Store(
                            o.heap_arr("triggered"), o.f["resume_event"].t, True), o.next_id, False), ("C12", "C07"))]
            C["resume_all_move_processes"] = FnContract(
                "resume_all_move_processes", [], post=post_resume, modifies=("resume_event",), heap_modifies=("triggered",),
                uses_inv=True, keeps_inv=True, allocates=True, props=("C12", "C20"))
            # interruption planning when the belt stalls / cancellation of planned interruptions when it moves again:
            # pattern analysis over the belt (strings, numpy rounding), interrupt() on mover processes.  NOT verified:
            # assumed to touch only the bookkeeping dictionaries (their effect is on *when* movers are interrupted)
            bk = ("active_move_processes",) + (("active_delayed_interrupt_processes",) if cls == "C" else ())
            for nm_, params_ in (("selective_interrupt", [("reason", ("opaque",), NONE)]),
                                 ("interrupt_and_resume_all_delayed_interrupt_processes", [("reason", ("opaque",), NONE)])):
                if nm_.startswith("interrupt_and") and cls != "C":
                    continue
                # VERIFIED (was assumed): frame -- no request list, item list, event or clock field is touched, in the
                # loops too (derived loop invariant `frame.*`) -- and no exception escapes; the pattern analysis they
                # call (_get_belt_pattern, _analyze_pattern_for_interruption, _calculate_gap_based_interruptions,
                # _execute_interruption_plan) stays assumed
                a_ = FnContract(nm_, params_, post=lambda c: [], uses_inv=False, keeps_inv=False, modifies=bk,
                                props=("C12", "C20"))
                C[nm_] = a_
            # interruption planning for an item that enters a stalled belt: pattern analysis over the belt, delayed
            # interrupt processes, bookkeeping dictionaries.  NOT verified: assumed to touch none of the request
            # lists, items or ready items (its only effect is on which mover processes get interrupted when)
            # helpers of the planner (pattern strings, numpy): assumed, results outside the model
            for nm_, params_ in (("_get_belt_pattern", []),
                                 ("_analyze_pattern_for_interruption", [("pattern", ("opaque",), None)]),
                                 ("_execute_interruption_plan", [("interruption_plan", ("opaque",), None), ("reason", ("opaque",), None)]),
                                 ("_calculate_gap_based_interruptions", [("pattern", ("opaque",), None), ("item_positions", ("opaque",), None)]
                                  + ([("belt_rep", ("opaque",), None)] if cls == "C" else [])),
                                 ("_interrupt_specific_item", [("item_id", ("opaque",), None), ("reason", ("opaque",), None)])):
                a_ = FnContract(nm_, params_, post=lambda c: [], uses_inv=False, keeps_inv=False, modifies=bk,
                                result_kind=("opaque",) if nm_ not in ("_interrupt_specific_item", "_execute_interruption_plan") else ("none",),
                                props=("C12", "C20") if nm_ == "_interrupt_specific_item" else ("C12",))
                # _interrupt_specific_item is VERIFIED (frame: no request list, item list or event is touched; no
                # exception escapes: a RuntimeError of Process.interrupt() is caught); the pattern helpers stay assumed
                a_.assumed = nm_ != "_interrupt_specific_item"
                C[nm_] = a_
            # _delayed_interrupt(item_id, delay, reason): VERIFIED -- waits exactly `delay` (needs delay >= 0: an
            # obligation at every site that starts one), then interrupts through _interrupt_specific_item; touches only
            # the bookkeeping dictionaries; no exception escapes
            di = FnContract("_delayed_interrupt", [("item_id", ("opaque",), None), ("delay", ("num", "real"), None),
                                                   ("reason", ("opaque",), None)],
                            pre=lambda st, args: [("delay-nonnegative", V.as_num(args["delay"]).t >= 0)],
                            modifies=bk, is_generator=True, props=("C12", "C20"))
            C["_delayed_interrupt"] = di

            # handle_new_item_during_interruption(item): how long the new item may still move is computed by the assumed
            # planner; what IS verified: it touches none of the request lists / items, and every delayed interruption it
            # starts is registered under the item's id in active_delayed_interrupt_processes -- the registry
            # interrupt_and_resume_all_delayed_interrupt_processes() cancels from when the belt moves again
            def registered_ok(c):
                sp = [x for x in c.new.ghost.get("spawned", [])[len(c.old.ghost.get("spawned", [])):] if x[0] == "_delayed_interrupt"]
                reg = c.new.ghost.get("registered", [])[len(c.old.ghost.get("registered", [])):]
                for x in sp:
                    pid = x[2] if len(x) > 2 else None
                    if pid is None or not any(r[0] == "active_delayed_interrupt_processes" and isinstance(r[2], VObj)
                                              and r[2].t.eq(pid) for r in reg):
                        return False
                return True
            hn = FnContract("handle_new_item_during_interruption", [("item", item_kind, None)],
                            post=lambda c: [Structural("every-delayed-interruption-it-starts-is-registered", registered_ok,
                                                       ("C12",), caller_effect=lambda c: None)],
                            uses_inv=False, keeps_inv=False, modifies=bk, props=("C12",))
            # (slotted store: verified as well -- frame, and the delay of the interruption it starts is >= 0)
            C["handle_new_item_during_interruption"] = hn

        # ---- reserve_put_cancel
        def post_rpc(c):
            o, n = c.old, c.new
            e = c.args["put_event_to_cancel"].t
            inq = lib.is_in(o, QP, e)
            q1 = V.ite(inq, V.list_pop(o.f[QP], lib.pos(o, QP, e)), o.f[QP])
            r1 = V.ite(inq, o.f[RP], V.list_pop(o.f[RP], lib.pos(o, RP, e)))
            k = c.ghost("k", lambda: n.f[RP].len - r1.len)
            return [
                Clause("k-range", lambda c: z3.And(0 <= k, k <= q1.len), ("C04",)),
                Def(QP, V.list_slice_from(q1, k), ("C05", "C07")),
                Def(RP, V.list_concat(r1, V.list_slice_to(q1, k)), ("C05", "C07")),
                Clause("result-truthy", lambda c: V.truth(c.res), ("C07",)),
            ]
        C["reserve_put_cancel"] = FnContract(
            "reserve_put_cancel", [("put_event_to_cancel", EV, None)], post=post_rpc,
            excs=[ExcCase("RuntimeError", lambda c: z3.Not(z3.Or(lib.is_in(c.old, QP, c.args["put_event_to_cancel"].t),
                                                               lib.is_in(c.old, RP, c.args["put_event_to_cancel"].t))),
                          "unknown-token", unchanged=True, props=("C07",))],
            normal_requires=lambda c: z3.Or(lib.is_in(c.old, QP, c.args["put_event_to_cancel"].t),
                                            lib.is_in(c.old, RP, c.args["put_event_to_cancel"].t)),
            modifies=(QP, RP), heap_modifies=("triggered",), result_kind=("bool",), props=("C04", "C05", "C07"))

        # ---- reserve_get_cancel (positional binding)
        if not p["ready"]:
            def post_rgc(c):
                o, n = c.old, c.new
                e = c.args["get_event_to_cancel"].t
                inq = lib.is_in(o, QG, e)
                cidx = lib.pos(o, RG, e)
                nres = o.f[RE].len
                It = o.f[ITEMS]
                # statement (C06): still-reserved items keep their order, then the released item, then the
                # never-reserved items in their old order
                released = It.at(cidx)
                moved = V.list_concat(V.list_append(V.list_pop(V.list_slice_to(It, nres), cidx), released),
                                      V.list_slice_from(It, nres))
                q1 = V.ite(inq, V.list_pop(o.f[QG], lib.pos(o, QG, e)), o.f[QG])
                g1 = V.ite(inq, o.f[RG], V.list_pop(o.f[RG], cidx))
                e1 = V.ite(inq, o.f[RE], V.list_pop(o.f[RE], cidx))
                k = c.ghost("k", lambda: n.f[RG].len - g1.len)
                pref = V.list_slice_to(q1, k)
                return [
                    Clause("k-range", lambda c: z3.And(0 <= k, k <= q1.len), ("C04",)),
                    Def(ITEMS, V.ite(inq, It, moved), ("C02", "C06")),
                    Def(QG, V.list_slice_from(q1, k), ("C05", "C07")),
                    Def(RG, V.list_concat(g1, pref), ("C05", "C07")),
                    Def(RE, V.list_concat(e1, pref), ("C02",)),
                    Clause("result-truthy", lambda c: V.truth(c.res), ("C07",)),
                ]
            C["reserve_get_cancel"] = FnContract(
                "reserve_get_cancel", [("get_event_to_cancel", EV, None)], post=post_rgc,
                excs=[ExcCase("RuntimeError",
                              lambda c: z3.Not(z3.Or(lib.is_in(c.old, QG, c.args["get_event_to_cancel"].t),
                                                     lib.is_in(c.old, RG, c.args["get_event_to_cancel"].t))),
                              "unknown-token", unchanged=True, props=("C07",))],
                normal_requires=lambda c: z3.Or(lib.is_in(c.old, QG, c.args["get_event_to_cancel"].t),
                                                lib.is_in(c.old, RG, c.args["get_event_to_cancel"].t)),
                modifies=(ITEMS, QG, RG, RE), heap_modifies=("triggered",), result_kind=("bool",),
                props=("C02", "C04", "C05", "C06", "C07"))

        if p["filt"]:
            def move(lst, m, n):
                """the element at m moved to position n (n <= m); everything else keeps its order"""
                return V.list_insert(V.list_pop(lst, m), n, lst.at(m))

            def match_first(st, e, It, n, m):
                """m is the first index >= n whose item satisfies e's filter"""
                return [z3.And(n <= m, m < It.len, lib.filt(st, e, It.at(m).t)),
                        Forall(1, lambda j: z3.Implies(z3.And(n <= j, j < m), z3.Not(lib.filt(st, e, It.at(j).t))),
                               [It.len], "first-match")]

            def no_match(st, e, It, n, extra_guard=None):
                def fn(j):
                    g = z3.And(n <= j, j < It.len)
                    if extra_guard is not None:
                        g = z3.And(g, extra_guard)
                    return z3.Implies(g, z3.Not(lib.filt(st, e, It.at(j).t)))
                return Forall(1, fn, [It.len], "no-match")

            # ---- _do_reserve_get (filter)
            def post_do_rg_f(c):
                o, n_ = c.old, c.new
                e = c.args["event"]
                It, n = o.f[ITEMS], o.f[RE].len
                gf = c.ghost("gf", lambda: trig(n_, e.t), sort="bool")
                m = c.ghost("m", lambda: (n + n_.loc["__i0"].t - 1) if isinstance(n_.loc.get("__i0"), Num) else n)
                room = o.f[RG].len < It.len
                mf = match_first(o, e.t, It, n, m)
                return [
                    Clause("granted-only-with-room", lambda c: z3.Implies(gf, room), ("C02",)),
                    # statement C06: a filtered retrieval is only ever bound to an item satisfying its filter
                    # (the first such un-reserved item, so matching items are still served first-in-first-out)
                    Clause("granted-only-with-match", lambda c: z3.Implies(gf, mf[0]), ("C06",)),
                    Clause("granted-binds-first-match", lambda c: Forall(
                        1, lambda j: z3.Implies(gf, mf[1].inst(j)), [It.len], "first"), ("C06",)),
                    Clause("refused-only-without-match",
                           lambda c: no_match(o, e.t, It, n, z3.And(z3.Not(gf), room)), ("C04",)),
                    Def(RG, V.ite(gf, V.list_append(o.f[RG], e), o.f[RG]), ("C02", "C04")),
                    Def(RE, V.ite(gf, V.list_append(o.f[RE], e), o.f[RE]), ("C02", "C04")),
                    Def(ITEMS, V.ite(gf, move(It, m, n), It), ("C06", "C02")),
                    DefHeap("triggered", z3.If(gf, z3.Store(o.heap_arr("triggered"), e.t, True),
                                               o.heap_arr("triggered")), ("C02", "C04")),
                    # head-of-line service (C05): a refused head must stop the scan of the queue
                    Clause("result-falsy", lambda c: z3.Not(V.truth(c.res)), ("C05",)),
                ]
            C["_do_reserve_get"] = FnContract(
                "_do_reserve_get", [("event", EV, None)],
                pre=lambda st, args: [("event-untriggered", z3.Not(trig(st, args["event"].t))),
                                      ("event-is-a-token-of-this-store", z3.Not(FOREIGN(args["event"].t)))],
                post=post_do_rg_f, uses_inv=True, keeps_inv=False, inv_skip=skip, modifies=(RG, RE, ITEMS),
                heap_modifies=("triggered",), result_kind=("opt", ("bool",)), props=("C02", "C04", "C06"))

            # ---- _trigger_reserve_get (filter): serves the head of the queue only
            def trig_get_items(c, o, q1, g1, e1, it1, n1):
                """effect of one _trigger_reserve_get() on the state (q1,g1,e1,it1); n1 = number of reservations"""
                n_ = c.new
                k = c.ghost("k", lambda: n_.f[RG].len - g1.len)
                def wit_m():
                    cg = n_.ghost.get("call_ghosts", {})
                    for nm in ("_do_reserve_get", "_trigger_reserve_get"):
                        if nm in cg and "m" in cg[nm]:
                            return cg[nm]["m"]
                    return z3.IntVal(0)
                m = c.ghost("m", wit_m)
                head = q1.at(0).t
                room = g1.len < it1.len
                pref = V.list_slice_to(q1, k)
                mf = match_first(c.eval_state, head, it1, n1, m)
                return [
                    Clause("k-range", lambda c: z3.And(0 <= k, k <= 1, k <= q1.len), ("C04", "C05")),
                    Clause("grant-needs-room-and-match", lambda c: z3.Implies(k == 1, z3.And(room, mf[0])), ("C06", "C02")),
                    Clause("grant-binds-first-match", lambda c: Forall(
                        1, lambda j: z3.Implies(k == 1, mf[1].inst(j)), [it1.len], "first"), ("C06",)),
                    Clause("serves-head-if-possible",
                           lambda c: no_match(c.eval_state, head, it1, n1, z3.And(k == 0, q1.len > 0, room)), ("C04",)),
                    Def(QG, V.list_slice_from(q1, k), ("C05",)),
                    Def(RG, V.list_concat(g1, pref), ("C05",)),
                    Def(RE, V.list_concat(e1, pref), ("C02",)),
                    Def(ITEMS, V.ite(k == 1, move(it1, m, n1), it1), ("C06", "C02")),
                    Clause("no-grant-no-event-touched",
                           lambda c: z3.Implies(k == 0, n_.heap_arr("triggered") == c.eval_state.heap_arr("triggered")),
                           ("C04", "C07")),
                ]

            def post_trig_get_f(c):
                o = c.old
                c.eval_state = o
                return trig_get_items(c, o, o.f[QG], o.f[RG], o.f[RE], o.f[ITEMS], o.f[RE].len)
            C["_trigger_reserve_get"] = FnContract(
                "_trigger_reserve_get", [("event", ("opt", EV), None)], post=post_trig_get_f,
                uses_inv=True, keeps_inv=True, inv_skip=skip, modifies=(QG, RG, RE, ITEMS),
                heap_modifies=("triggered",), props=("C04", "C05", "C06"))

            # ---- _do_put / _trigger_put / put (filter store): stamps put_time, starts the re-trigger timer
            def put_core_f(c, with_trigger):
                o, n_ = c.old, c.new
                e = c.args["put_event"].t
                x = c.args["item"]
                it1 = V.list_append(o.f[ITEMS], x)
                items = [
                    Def(RP, V.list_pop(o.f[RP], lib.pos(o, RP, e)), ("C01", "C07")),
                    DefHeap("put_time", z3.Store(o.heap_arr("put_time"), x.t, o.now), ("C06",)),
                    Clause("result-truthy", lambda c: V.truth(c.res), ("C01",)),
                    Structural("starts-exactly-one-retrigger-timer",
                               lambda c: len([y for y in c.new.ghost.get("spawned", []) if y[0] == "_add_trigger_event"])
                               - len([y for y in c.old.ghost.get("spawned", []) if y[0] == "_add_trigger_event"]) == 1,
                               ("C04",),
                               caller_effect=lambda c: c.new.ghost.setdefault("spawned", []).append(("_add_trigger_event", {}))),
                ]
                if not with_trigger:
                    items.append(Def(ITEMS, it1, ("C01", "C02")))
                else:
                    # intermediate state: after _do_put, before the trigger
                    mid = o.fork()
                    mid.f[ITEMS] = it1
                    mid.heap_arr("put_time")
                    mid.h["put_time"] = z3.Store(o.heap_arr("put_time"), x.t, o.now)
                    c.eval_state = mid
                    items += trig_get_items(c, o, o.f[QG], o.f[RG], o.f[RE], it1, o.f[RE].len)
                return items
            C["_do_put"] = FnContract(
                "_do_put", [("put_event", EV, None), ("item", IT, None)], post=lambda c: put_core_f(c, False),
                excs=put_excs(), normal_requires=put_requires, uses_inv=True, keeps_inv=False,
                modifies=(RP, ITEMS), heap_modifies=("put_time",), result_kind=("bool",), props=("C01", "C07"))
            C["_trigger_put"] = FnContract(
                "_trigger_put", [("put_event", EV, None), ("item", IT, None)],
                pre=lambda st, args: [("reservations-nonempty", st.f[RP].len > 0)],
                post=lambda c: put_core_f(c, False), excs=put_excs(), normal_requires=put_requires,
                uses_inv=True, keeps_inv=False, modifies=(RP, ITEMS), heap_modifies=("put_time",),
                result_kind=("bool",), props=("C01", "C07"))
            C["put"] = FnContract(
                "put", [("put_event", EV, None), ("item", IT, None)], post=lambda c: put_core_f(c, True),
                excs=put_excs(), normal_requires=put_requires, modifies=(RP, ITEMS, QG, RG, RE),
                heap_modifies=("triggered", "put_time"), result_kind=("bool",), props=("C01", "C02", "C07"))

            # ---- reserve_get(priority, filter)
            def post_rg_f(c):
                o, n_ = c.old, c.new
                e = VObj(o.next_id, "event")
                pr = c.args["priority"]
                pos = c.ghost("pos", lambda: _insertion_witness(n_))
                oq = o.f[QG]
                q1 = V.list_insert(oq, pos, e)
                mid = o.fork()
                mid.heap_arr("filter")
                fv = c.args["filter"]
                fid = z3.If(fv.isnone, z3.IntVal(lib.DEFAULT_FILTER), fv.val.t)
                mid.h["filter"] = z3.Store(o.heap_arr("filter"), e.t, fid)
                mid.heap_arr("triggered")
                mid.h["triggered"] = z3.Store(o.heap_arr("triggered"), e.t, False)
                c.eval_state = mid
                items = [
                    DefRes(e, ("C05",)),
                    Clause("fresh-id", lambda c: n_.next_id == o.next_id + 1, ("C02",)),
                    Clause("owner", lambda c: owner(n_, e.t) == o.active, ("C07",)),
                    Clause("priority-recorded", lambda c: z3.Select(n_.heap_arr("priority_to_get"), e.t) == _real(pr), ("C05",)),
                    Clause("filter-recorded", lambda c: z3.Select(n_.heap_arr("filter"), e.t) == fid, ("C06",)),
                    Clause("stable-position", lambda c: z3.And(0 <= pos, pos <= oq.len), ("C05",)),
                    Clause("stable-position.before", lambda c: Forall(1, lambda i: z3.Implies(
                        z3.And(0 <= i, i < pos), prio_get(o, oq.at(i).t) <= _real(pr)), [oq.len], "before"), ("C05",)),
                    Clause("stable-position.after", lambda c: Forall(1, lambda i: z3.Implies(
                        z3.And(pos <= i, i < oq.len), prio_get(o, oq.at(i).t) > _real(pr)), [oq.len], "after"), ("C05",)),
                ]
                items += trig_get_items(c, o, q1, o.f[RG], o.f[RE], o.f[ITEMS], o.f[RE].len)
                return items
            C["reserve_get"] = FnContract(
                "reserve_get", [("priority", ("num", "real"), Num(0)), ("filter", ("opt", ("obj", "filter")), NONE)],
                post=post_rg_f, modifies=(QG, RG, RE, ITEMS),
                heap_modifies=("triggered", "requesting_process", "resourcename", "priority_to_get", "filter"),
                result_kind=EV, props=("C04", "C05", "C06"), allocates=True)

            # ---- reserve_get_cancel (filter store: positional binding, then one re-trigger)
            def post_rgc_f(c):
                o, n_ = c.old, c.new
                e = c.args["get_event_to_cancel"].t
                inq = lib.is_in(o, QG, e)
                cidx = lib.pos(o, RG, e)
                nres = o.f[RE].len
                It = o.f[ITEMS]
                released = It.at(cidx)
                moved = V.list_concat(V.list_append(V.list_pop(V.list_slice_to(It, nres), cidx), released),
                                      V.list_slice_from(It, nres))
                q1 = V.ite(inq, V.list_pop(o.f[QG], lib.pos(o, QG, e)), o.f[QG])
                g1 = V.ite(inq, o.f[RG], V.list_pop(o.f[RG], cidx))
                e1 = V.ite(inq, o.f[RE], V.list_pop(o.f[RE], cidx))
                it1 = V.ite(inq, It, moved)
                c.eval_state = o
                return trig_get_items(c, o, q1, g1, e1, it1, e1.len) + [
                    Clause("result-truthy", lambda c: V.truth(c.res), ("C07",))]
            C["reserve_get_cancel"] = FnContract(
                "reserve_get_cancel", [("get_event_to_cancel", EV, None)], post=post_rgc_f,
                excs=[ExcCase("RuntimeError",
                              lambda c: z3.Not(z3.Or(lib.is_in(c.old, QG, c.args["get_event_to_cancel"].t),
                                                     lib.is_in(c.old, RG, c.args["get_event_to_cancel"].t))),
                              "unknown-token", unchanged=True, props=("C07",))],
                normal_requires=lambda c: z3.Or(lib.is_in(c.old, QG, c.args["get_event_to_cancel"].t),
                                                lib.is_in(c.old, RG, c.args["get_event_to_cancel"].t)),
                modifies=(ITEMS, QG, RG, RE), heap_modifies=("triggered",), result_kind=("bool",),
                props=("C02", "C04", "C05", "C06", "C07"))

            # ---- _add_trigger_event: the timer that re-runs the get-side trigger when an item has aged
            C["_add_trigger_event"] = FnContract(
                "_add_trigger_event", [], is_generator=True, uses_inv=True, keeps_inv=True,
                entry_assume=lambda st, args: [("trigger-delay-nonneg", st.f["trigger_delay"].t >= 0)],
                post=lambda c: [
                    Clause("delay-field", lambda c: c.new.f["delay"].t == c.new.f["trigger_delay"].t, ("C04",)),
                    Structural("ends-by-firing-an-event-that-carries-the-get-trigger",
                               lambda c: _fired_callback(c.new, "self._trigger_reserve_get"), ("C04",))],
                modifies=("delay",), heap_modifies=("triggered",), props=("C04",))

        # ---- __init__
        init_params = [("env", ("env",), None), (("capacity", ("num", "int"), None) if p["belt"] else
                                                 ("capacity", ("num", "intinf"), Num(z3.IntVal(0), inf=z3.BoolVal(True))))]
        if p["lifo"]:
            init_params.append(("mode", ("str",), VStr("FIFO")))
        if p["filt"]:
            init_params.append(("trigger_delay", ("num", "real"), Num(0)))
        if p["fleet"]:
            init_params.append(("delay", ("num", "real"), Num(1)))
            init_params.append(("transit_delay", ("num", "real"), Num(0)))
        if p["belt"] and cls == "C":
            init_params.append(("speed", ("num", "real"), Num(1)))
            init_params.append(("accumulation_mode_indicator", ("bool",), VBool(True)))
        if p["belt"] and cls == "S":
            init_params.append(("delay", ("num", "real"), Num(1)))
        C["__init__"] = FnContract(
            "__init__", init_params,
            excs=[ExcCase("ValueError", lambda c: z3.And(z3.Not(c.args["capacity"].inf) if c.args["capacity"].inf is not None
                                                         else True, c.args["capacity"].t <= 0),
                          "non-positive-capacity", unchanged=False, props=("C20",))],
            normal_requires=lambda c: z3.Or(c.args["capacity"].inf, c.args["capacity"].t > 0)
            if c.args["capacity"].inf is not None else c.args["capacity"].t > 0,
            post=lambda c: [Clause("capacity-recorded", lambda c: V.eq(c.new.f["capacity"], c.args["capacity"]), ("C01",))]
            + [Clause("starts-empty." + nm, (lambda nm: lambda c: c.new.f[nm].len == 0)(nm), ("C01", "C02"))
               for nm in (QP, RP, QG, RG, RE, ITEMS) + ((RD, RI) if p["ready"] else ())]
            + ([Clause("mode-recorded", lambda c: c.new.f["mode"].t == c.args["mode"].t, ("C06",))] if p["lifo"] else [])
            + ([Clause("slot-delay-recorded", lambda c: c.new.f["delay"].t == c.args["delay"].t, ("C12",))] if cls == "S" else [])
            + ([Clause("waiting-delay-and-transit-delay-recorded", lambda c: z3.And(
                c.new.f["delay"].t == c.args["delay"].t, c.new.f["transit_delay"].t == c.args["transit_delay"].t), ("C14",))]
               if p["fleet"] else [])
            + ([Clause("speed-and-accumulation-flag-recorded", lambda c: z3.And(
                c.new.f["speed"].t == c.args["speed"].t,
                c.new.f["accumulation_mode_indicator"].t == c.args["accumulation_mode_indicator"].t), ("C12",))]
               if cls == "C" else [])
            + ([Structural("starts-the-activation-process", lambda c: len(
                [x for x in c.new.ghost.get("spawned", []) if x[0] == "fleet_activation_process"]) == 1, ("C14",))]
               if p["fleet"] else []),
            uses_inv=False, keeps_inv=True, is_init=True, props=("C01", "C20"))

        if p["fleet"]:
            def post_fleet_mover(c):
                o, n = c.old, c.new      # o = state at the last resumption (end of the round trip)
                nb = o.ghost.get("batch_len")
                if nb is None:
                    nb = o.f[ITEMS].len
                batch = V.list_slice_to(o.f[ITEMS], nb)
                kg = c.ghost("kg", lambda: n.f[RG].len - o.f[RG].len)
                kp = c.ghost("kp", lambda: n.f[RP].len - o.f[RP].len)
                pg = V.list_slice_to(o.f[QG], kg)
                pp = V.list_slice_to(o.f[QP], kp)
                return [
                    # statement C14: exactly the items waiting at departure become available, in loading order;
                    # items loaded after the departure stay behind for the next trip
                    Def(ITEMS, V.list_slice_from(o.f[ITEMS], nb), ("C14",)),
                    Def(RD, V.list_concat(o.f[RD], batch), ("C14",)),
                    Clause("kg-range", lambda c: z3.And(0 <= kg, kg <= o.f[QG].len), ("C04",)),
                    Clause("kp-range", lambda c: z3.And(0 <= kp, kp <= o.f[QP].len), ("C04",)),
                    Def(QG, V.list_slice_from(o.f[QG], kg), ("C04", "C05")),
                    Def(RG, V.list_concat(o.f[RG], pg), ("C04", "C05")),
                    Def(RE, V.list_concat(o.f[RE], pg), ("C02",)),
                    Def(QP, V.list_slice_from(o.f[QP], kp), ("C04", "C05")),
                    Def(RP, V.list_concat(o.f[RP], pp), ("C04", "C05")),
                ]
            C["move_to_ready_items"] = FnContract(
                "move_to_ready_items", [("items", ("alias", ITEMS), None)], post=post_fleet_mover,
                entry_assume=lambda st, args: [("transit-delay-nonneg", st.f["transit_delay"].t >= 0)],
                modifies=(ITEMS, RD, QG, RG, RE, RI, QP, RP), heap_modifies=("triggered",),
                is_generator=True, props=("C01", "C02", "C04", "C14"))
            fa = FnContract(
                "fleet_activation_process", [], post=lambda c: [],
                entry_assume=lambda st, args: [("delay-positive", st.f["delay"].t > 0)],
                modifies=(ITEMS,), heap_modifies=("triggered",), is_generator=True, props=("C14", "C20"))
            fa.has_normal_exit = False
            C["fleet_activation_process"] = fa
        # frame of the `triggered` map: an event that is allocated, is no request token of this store and is not one
        # of the store's own signalling events keeps its status (parametric lemma; callers instantiate it for
        # their own events, e.g. the conveyor's one-shot events)
        def trig_frame(c, e):
            return z3.Implies(FOREIGN(e), trig(c.new, e) == trig(c.old, e))
        for nm, con in C.items():
            if "triggered" in con.heap_modifies and not con.is_generator and not getattr(con, "assumed", False):
                con.post = (lambda op: lambda c: list(op(c)) + [Lemma("frame.foreign-events-untouched", trig_frame,
                                                                      ("C07", "C12"))])(con.post)
        return C

    # ------------------------------------------------------------------ loop invariants
    def loop_invs(self, cls, fname):
        p = PROFILES[cls]
        lib = self
        if p["filt"] and fname == "_trigger_reserve_get":
            return {0: HeadOnlyLoop(lib, cls)}
        if p["filt"] and fname == "_do_reserve_get":
            return {0: FilterScanLoop(lib, cls)}
        if fname in ("_trigger_reserve_put", "_trigger_reserve_get"):
            side = "put" if fname.endswith("put") else "get"
            return {0: TriggerLoop(lib, cls, side)}
        if p["fleet"] and fname == "move_to_ready_items":
            return {0: FleetMoverLoop(lib, cls, ("C01", "C02", "C04", "C14"))}
        if p["fleet"] and fname == "fleet_activation_process":
            return {0: ActivationLoop(lib, cls, ("C14", "C20"))}
        if p["belt"] and fname == "move_to_ready_items":
            return {0: BeltPhaseLoop(lib, cls, 0), 1: BeltPhaseLoop(lib, cls, 1)}
        return {}

    # bookkeeping dictionaries of the belt stores (active_move_processes, ...) are outside the modelled state:
    # membership is unconstrained, deletion and update have no modelled effect (A-bookkeeping, listed in evidence)
    def member(self, ex, x, lst, st, lineno):
        if isinstance(lst, VOpaque):
            b = z3.Bool("opaque_member!%s" % _ctr())
            return [(bb, s, None) for bb, s in ex.branch(st, b, lineno)]
        return None

    def delete(self, ex, node, st):
        import ast
        outs = None
        if len(node.targets) == 1 and isinstance(node.targets[0], ast.Subscript):
            base = node.targets[0].value
            if (isinstance(base, ast.Attribute) and isinstance(base.value, ast.Name) and base.value.id == "self"
                    and self.schema(ex.ctx.cls).get(base.attr) == ("opaque",)):
                outs = [Outcome("next", st)]
        return outs

    def yield_spec(self, cls, fname, con, old, args):
        if con.is_generator:
            return MoverYields(self, cls, con, old, args)
        return None

    def frame(self, cls, con, old, new):
        """fields outside `modifies` must be unchanged (checked on the callee side)."""
        out = []
        from pyvc.contract import unchanged_clauses
        fields = [f for f in old.f if f not in con.modifies]
        heaps = [h for h in old.h if h.split("?")[0].split("#")[0] not in con.heap_modifies]
        return unchanged_clauses(self, cls, old, new, fields, heaps)

    def finish_outcomes(self, ex, cls, fname, con, outcomes):
        return outcomes

    def bind_params(self, cls, fname, fnode, con, st):
        args = {}
        from pyvc.execute import EnvRef
        for (nm, kind, default) in con.params:
            if kind[0] == "env":
                args[nm] = EnvRef()
            elif kind[0] == "alias":
                args[nm] = FieldRef(kind[1])     # precondition: the caller passes the live list object
            else:
                args[nm] = V.mk_value("arg." + nm, kind)
        return args

    # ------------------------------------------------------------------ executor hooks
    def call_self(self, ex, name, args, kw, st, lineno):
        cls = ex.ctx.cls
        con = self.contracts[cls].get(name)
        if con is None:
            r = self.inline_accessor(ex, name, args, kw, st, lineno)
            if r is not None:
                return r
            raise Unsupported("call to self.%s() which has no contract (line %d)" % (name, lineno))
        amap = {}
        for k, (pn, kind, default) in enumerate(con.params):
            if k < len(args):
                amap[pn] = args[k]
            elif pn in kw:
                amap[pn] = kw[pn]
            elif default is not None:
                amap[pn] = default
            else:
                raise Unsupported("missing argument %s for %s" % (pn, name))
        if con.is_generator:
            return [(VGen(name, amap), st)]
        # callee assumes the (structural) invariant: it must hold at the call site
        if con.uses_inv:
            for nm, cl, props in self.invariant(cls, st, side="prove"):
                if nm in con.inv_skip:
                    continue
                ex.ctx.oblige("call.%s.inv.%s@L%d" % (name, nm, lineno), st, [cl], "call-pre", lineno, props)
        outs = apply_contract(ex, con, amap, st, lineno, self, cls)
        if con.keeps_inv:
            for v, s in outs:
                if not isinstance(v, Exc):
                    for nm, cl, props in self.invariant(cls, s, side="assume"):
                        if nm in con.inv_skip:
                            continue
                        s.assume(cl)
        return outs

    def call_super(self, ex, name, args, st, lineno):
        """trusted K-contract of simpy.resources.store.Store.__init__(env, capacity)"""
        if name != "__init__":
            raise Unsupported("super().%s" % name)
        cap = args[1]
        outs, ok = ex.raise_if(st, z3.And(z3.Not(cap.inf) if cap.inf is not None else True, cap.t <= 0),
                               "ValueError", lineno, "simpy Store: capacity must be > 0")
        if ok is not None:
            ok.f["capacity"] = cap
            ok.f[ITEMS] = V.list_empty(self.schema(ex.ctx.cls)[ITEMS][1])
            outs.append((NONE, ok))
        return outs

    def set_self_attr(self, ex, attr, v, st, lineno):
        from pyvc.execute import EnvRef
        if attr == "env" and isinstance(v, EnvRef):
            return [Outcome("next", st)]
        sch = self.schema(ex.ctx.cls)
        if isinstance(v, SList) and v.ekind == ("any",) and V.is_literally_empty(v) and attr in sch and sch[attr][0] == "list":
            st.f[attr] = V.list_empty(sch[attr][1])
            return [Outcome("next", st)]
        return None

    def call_env(self, ex, name, args, kw, st, node):
        if name == "event":
            s = st.fork()
            e = s.fresh_obj("event")
            s.heap_set(e, "triggered", VBool(False))
            s.assume(z3.Not(FOREIGN(e.t)))      # allocated by the store itself
            s.ghost.setdefault("local_events", []).append(e.t)
            return [(e, s)]
        if name == "timeout":
            d = V.as_num(args[0])
            # K-timeout: simpy raises ValueError for a negative delay
            ex.ctx.oblige("call.timeout.delay-nonneg@L%d" % node.lineno, st, [d.t >= 0], "call-pre", node.lineno, ("C20",))
            return [(VTimeout(d), st)]
        if name == "any_of":
            lst = args[0]
            if isinstance(lst, VPyList):
                return [(VAnyOf(lst.items), st)]
            raise Unsupported("any_of over %r (line %d)" % (lst, node.lineno))
        if name == "process":
            g = args[0]
            if not isinstance(g, VGen):
                raise Unsupported("env.process of %r" % (g,))
            s = st.fork()
            if g.name == "_delayed_interrupt":
                # the process contract's precondition (delay >= 0) is an obligation of the site that starts it -- when the
                # delay is a modelled number.  A delay that comes out of the assumed pattern analysis is outside the model:
                # there the precondition is ASSUMED (A-planner-delay, listed in every evidence file)
                gcon = self.contracts[ex.ctx.cls].get(g.name)
                d_ = ex.deref(g.args.get("delay"), s) if g.args.get("delay") is not None else None
                if gcon is not None and isinstance(d_, (Num, V.VDyn)):
                    for nm_, cl_ in gcon.pre(s, dict(g.args, delay=d_)):
                        ex.ctx.oblige("spawn.%s.pre.%s@L%d" % (g.name, nm_, node.lineno), s, [cl_], "call-pre", node.lineno,
                                      ("C20", "C12"))
                else:
                    s.ghost.setdefault("assumed_pre", []).append((g.name, node.lineno))
            p_ = s.fresh_obj("proc")
            s.ghost.setdefault("spawned", []).append((g.name, g.args, p_.t))
            return [(p_, s)]
        raise Unsupported("env.%s() at line %d" % (name, node.lineno))

    def call_obj(self, ex, base, name, args, kw, st, node):
        if base.kind == "event" and name == "succeed":
            outs, ok = ex.raise_if(st, trig(st, base.t), "RuntimeError", node.lineno, "succeed() on triggered event")
            if ok is not None:
                ok.heap_set(base, "triggered", VBool(True))
                ok.ghost.setdefault("fired", []).append(base.t)
                outs.append((base, ok))
            return outs
        if base.kind == "event" and name == "filter":
            return [(VBool(self.filt(st, base.t, args[0].t)), st)]
        raise Unsupported("%s.%s() at line %d" % (base.kind, name, node.lineno))

    def obj_attr(self, ex, base, attr, st, lineno):
        if base.kind == "item" and ("absent:" + attr) in __import__("pyvc.state", fromlist=["HEAP_SCHEMA"]).HEAP_SCHEMA:
            outs, ok = ex.raise_if(st, z3.Select(st.heap_arr("absent:" + attr), base.t), "AttributeError", lineno,
                                   "item has no attribute %s yet" % attr)
            if ok is not None:
                outs.append((ok.heap_get(base, attr), ok))
            return outs
        if base.kind == "item" and attr == "id":
            return [(VOpaque("item-id"), st)]
        if base.kind == "event" and attr == "callbacks":
            v = VOpaque("callbacks")
            v.event = base.t
            return [(v, st)]
        return [(st.heap_get(base, attr), st)]

    def has_attr(self, ex, v, name, st):
        if isinstance(v, VObj) and v.kind == "item" and name in ("id", "length"):
            return VBool(True)          # validity: flow items have an id and a length
        return None

    def set_item(self, ex, base, idx, v, st, lineno):
        return None

    def builtin(self, ex, name, args, kw, st, node):
        return None

    def call_opaque(self, ex, base, name, args, kw, st, node):
        if base.tag == "module:np" and name == "abs":
            n = V.as_num(args[0])
            return [(Num(z3.If(n.t < 0, -n.t, n.t)), st)]
        if name == "interrupt" and "active_" in base.tag and ("_processes[" in base.tag or base.tag.endswith("_processes.items()).elem.value")):
            # K-interrupt-call (SimPy, assumed): Process.interrupt(cause) on a mover / delayed-interruption process taken
            # from the bookkeeping dictionaries either raises RuntimeError (process finished, or interrupting itself) or
            # schedules an Interruption for that process; it runs no user code now and touches no store field
            s1 = st.fork()
            s1.ghost.setdefault("interrupt_calls", []).append((base.tag, node.lineno))
            s2 = st.fork()
            return [(NONE, s1), (Exc("RuntimeError", node.lineno, "Process.interrupt() on a finished process"), s2)]
        if name == "pop" and len(args) == 2 and base.tag.endswith(("active_move_processes", "active_delayed_interrupt_processes")):
            # A-bookkeeping: dict.pop(key, default) on a bookkeeping dictionary never raises; the dictionaries are
            # outside the modelled state
            return [(VOpaque(base.tag + ".pop()"), st)]
        if name in ("items", "keys", "values") and not args and base.tag.endswith(("active_move_processes", "active_delayed_interrupt_processes")):
            return [(VOpaque(base.tag + "." + name + "()"), st)]     # a view of a bookkeeping dictionary: outside the model
        if base.tag == "callbacks" and name == "append" and isinstance(args[0], V.VFunc):
            s = st.fork()
            s.ghost.setdefault("callbacks", []).append((base.event, args[0].name))
            return [(NONE, s)]
        return None

    def set_obj_attr(self, ex, base, attr, v, st, lineno):
        if attr == "resourcename":
            st.heap_arr("resourcename")
            return [Outcome("next", st)]   # back-reference to the store; identity not modelled
        if base.kind == "item" and ("absent:" + attr) in __import__("pyvc.state", fromlist=["HEAP_SCHEMA"]).HEAP_SCHEMA:
            st.heap_arr("absent:" + attr)
            st.h["absent:" + attr] = z3.Store(st.h["absent:" + attr], base.t, False)
            st.heap_set(base, attr, ex.deref(v, st))
            return [Outcome("next", st)]
        if attr == "filter":
            if isinstance(v, V.VOpt):
                # the path condition has already excluded None (the code tests `filter is None` first)
                st.heap_set(base, "filter", v.val)
                return [Outcome("next", st)]
            if isinstance(v, V.VFunc):
                # the only lambda assigned is the store's default age filter (checked syntactically below)
                if v.node is None or "put_time" not in __import__("ast").dump(v.node):
                    raise Unsupported("unknown lambda assigned to event.filter (line %d)" % lineno)
                st.heap_set(base, "filter", VObj(z3.IntVal(self.DEFAULT_FILTER), "filter"))
                return [Outcome("next", st)]
        return None

    def list_sort(self, ex, base, lst, node, st, write):
        """list.sort(key=lambda e: e.<attr>) on a list whose first n-1 elements are already sorted:
        the result is the stable insertion of the last element (assumption A-sort)."""
        key = None
        for k in node.keywords:
            if k.arg == "key":
                key = k.value
            else:
                raise Unsupported("sort(%s=...)" % k.arg)
        if key is None or not isinstance(key, __import__("ast").Lambda):
            raise Unsupported("sort without key lambda")
        var = key.args.args[0].arg

        def keyof(elem, s=st):
            s2 = s.fork()
            s2.loc[var] = elem
            return V.as_num(ex.eval_pure(key.body, s2, node.lineno)).t
        n = lst.len
        outs, ok = [], st
        # empty list: nothing to do
        res = []
        for b, s in ex.branch(st, n == 0, node.lineno):
            if b:
                res.append((NONE, s))
                continue
            body = V.list_slice_to(lst, n - 1)
            last = lst.at(n - 1)
            # obligation: the first n-1 elements are sorted by the key
            ex.ctx.oblige("sort.prefix-sorted@L%d" % node.lineno, s, [
                Forall(2, lambda i, j: z3.Implies(z3.And(0 <= i, i < j, j < n - 1),
                                                  keyof(lst.at(i)) <= keyof(lst.at(j))), [n, n], "prefix-sorted")],
                "call-pre", node.lineno, ("C05",))
            pos = logic.fresh_idx("sortpos")
            kl = keyof(last)
            s.assume(z3.And(0 <= pos, pos <= n - 1))
            s.assume(Forall(1, lambda i: z3.Implies(z3.And(0 <= i, i < pos), keyof(lst.at(i)) <= kl), [n], "sort.before"))
            s.assume(Forall(1, lambda i: z3.Implies(z3.And(pos <= i, i < n - 1), keyof(lst.at(i)) > kl), [n], "sort.after"))
            s.ghost.setdefault("sort_pos", []).append(pos)
            write(s, V.list_insert(body, pos, last))
            res.append((NONE, s))
        return res

    def model_to_json(self, st, m, ob):
        """read the ENTRY state of the verified function out of a model."""
        old = getattr(ob.ctx, "old", None)
        args = getattr(ob.ctx, "args", None) or {}
        dargs = {k: dump_value(v, m) for k, v in args.items() if isinstance(v, V.Value) and not isinstance(v, FieldRef)}
        extra = [v for v in dargs.values() if isinstance(v, int)]
        d = {"entry": dump_state(self, old, m, extra) if old is not None else None, "exit": dump_state(self, st, m, extra)}
        d["args"] = dargs
        return d


class MoverYields:
    """yield points of a store timer process.  At `yield env.timeout(d)`: the class invariant must hold (the
    state is visible to every other process), then every field is havocked under the rely
    (invariant holds; time advanced by exactly d; the item this process moves is still in transit, which is
    guaranteed because no other code removes from `items`: frame obligation + A-distinct)."""

    def __init__(self, lib, cls, con, old, args):
        self.lib, self.cls, self.con, self.old, self.args = lib, cls, con, old, args

    def on_yield(self, ex, ordinal, ynode, value, st):
        lib, cls = self.lib, self.cls
        p = PROFILES[cls]
        anyof = None
        evs = []
        ctx = ex.ctx
        if p["belt"] and self.con.name == "move_to_ready_items":
            return self.belt_yield(ex, ordinal, ynode, value, st)
        if isinstance(value, VAnyOf):
            anyof = value
            tmo = [m for m in anyof.members if isinstance(m, VTimeout)]
            evs = [m for m in anyof.members if isinstance(m, VObj)]
            if len(tmo) != 1 or len(evs) != 1 or len(anyof.members) != 2:
                raise Unsupported("any_of shape (line %d)" % ynode.lineno)
            value = tmo[0]
        if isinstance(value, VObj) and value.kind == "proc":
            # a store timer process waits for its own timer (and trigger event) only: waiting for a process it
            # has spawned would stop the timer for as long as that process runs (for the fleet: no departure
            # while a vehicle is on its way, which breaks the one-delay-plus-one-trip bound)
            ctx.oblige("yield%d.waits-for-timer-or-trigger-only" % ordinal, st, [z3.BoolVal(False)], "yield",
                       ynode.lineno, ("C14",) if p["fleet"] else ("C13",))
            return []
        if not isinstance(value, VTimeout):
            raise Unsupported("yield of %r in a store process (line %d)" % (value, ynode.lineno))
        self.check_at_yield(ex, ordinal, ynode, st)
        exp = lib.expected_timeout(cls, self.con, ordinal, self.args, st)
        if exp is not None:
            ctx.oblige("yield%d.timeout-is-%s" % (ordinal, exp[0]), st, [value.delay.t == exp[1]], "yield",
                       ynode.lineno, exp[2])
        s = self.resume(ex, ordinal, st, value.delay.t, anyof_ev=(evs[0].t if anyof is not None else None))
        return [(NONE, s)]

    def check_at_yield(self, ex, ordinal, ynode, st):
        """the class invariant must hold whenever the process gives up control"""
        for nm, cl, props in self.lib.invariant(self.cls, st, side="prove"):
            ex.ctx.oblige("yield%d.inv.%s" % (ordinal, nm), st, [cl], "yield-inv", ynode.lineno, props)

    def resume(self, ex, ordinal, st, delay, anyof_ev=None, at_most=False):
        """state at the resumption: every field havocked under the rely.  `delay`: the timer; at_most=True: the
        process is resumed at some instant up to the timer (interrupt), delay=None: at any later instant (event)"""
        lib, cls = self.lib, self.cls
        p = PROFILES[cls]
        s = st.fork()
        tag = "y%d_%s" % (ordinal, _ctr())
        for nm, kind in lib.schema(cls).items():
            if nm in lib.rely_stable(cls):
                continue
            s.f[nm] = V.mk_value("%s.%s" % (tag, nm), kind)
        for attr in list(s.h):
            base = attr.split("?")[0].split("#")[0]
            if base in ("priority_to_put", "priority_to_get", "requesting_process", "length"):
                continue      # immutable after creation (frame obligation)
        s.heap_arr("triggered")
        s.havoc_heap("triggered", tag)
        nid = z3.Int(tag + ".next_id")
        s.assume(nid >= s.next_id)
        s.next_id = nid
        if anyof_ev is None and delay is not None and not at_most:
            s.now = st.now + delay
        elif anyof_ev is None:
            s.now = z3.Real(tag + ".now")
            s.assume(s.now >= st.now)
            if delay is not None:
                s.assume(s.now <= st.now + delay)
        else:
            # K-any_of: fires at the earliest member: the timer, or the event if that is triggered first
            s.now = z3.Real(tag + ".now")
            ev = anyof_ev
            s.assume(z3.And(s.now >= st.now, s.now <= st.now + delay))
            s.ghost["woken_by_event"] = ev
            s.ghost["yield_now"] = st.now
            # if the event was already triggered at the yield the condition fires in the same instant;
            # otherwise it fires when the timer expires or when the event gets triggered
            s.pc.append(z3.Implies(trig(st, ev), s.now == st.now))
        if p["fleet"] and self.con.name == "move_to_ready_items" and "batch_len" not in st.ghost:
            st.ghost["batch_len"] = self.old.f[ITEMS].len
            s.ghost["batch_len"] = st.ghost["batch_len"]
        for nm, cl in lib.validity(cls, s, self.con):
            s.assume(cl)
        for nm, cl, props in lib.invariant(cls, s, side="assume"):
            s.assume(cl)
        if self.con.entry_assume is not None:
            for nm, cl in self.con.entry_assume(s, self.args):
                s.assume(cl)
        # rely: an event created by this process and never handed out is untouched and unknown to the store
        for ev in st.ghost.get("local_events", []):
            if any(ev.eq(x) for x in st.ghost.get("fired", [])):
                continue      # succeeded by this process already
            s.assume(z3.Not(trig(s, ev)))
            s.assume(s.ghost["tag"](ev) == 0)
            s.assume(ev < st.next_id)
        if anyof_ev is not None:
            s.pc.append(z3.Or(s.now == st.now + delay, trig(s, anyof_ev)))
        if "batch_len" in s.ghost:
            s.assume(s.ghost["batch_len"] <= s.f[ITEMS].len)   # rely: the batch is still on the vehicle
        s.ghost["resume_old"] = None
        s.ghost["resume_old"] = s.fork()
        s.ghost["entry_now"] = st.now
        return s

    # ---- belt movers: timers can be interrupted (simpy.Interrupt), and the process then waits for `resume_event`
    def belt_yield(self, ex, ordinal, ynode, value, st):
        """Ghost accounting of the travel: `moved` = time spent in (possibly interrupted) timers, `waited` = time
        spent waiting for the resume signal.  K-interrupt: a process waiting for a timer of r is resumed either
        after exactly r, or after some 0 <= e <= r with simpy.Interrupt raised at the yield.
        A-no-nested-interrupt: a mover waiting for the resume signal is not interrupted again (unchecked)."""
        ctx = ex.ctx
        self.check_at_yield(ex, ordinal, ynode, st)
        g = belt_ghost(st, self.old)
        outs = []
        if isinstance(value, VTimeout):
            r = value.delay.t
            s = self.resume(ex, ordinal, st, r)
            set_belt_ghost(s, g, moved=g["moved"] + r)
            outs.append((NONE, s))
            s2 = self.resume(ex, ordinal, st, r, at_most=True)
            set_belt_ghost(s2, g, moved=g["moved"] + (s2.now - st.now), interrupted=z3.BoolVal(True))
            outs.append((Exc("Interrupt", ynode.lineno), s2))
            return outs
        if isinstance(value, VObj) and value.kind == "event":
            ctx.oblige("yield%d.waits-for-the-resume-signal" % ordinal, st, [value.t == st.f["resume_event"].t], "yield",
                       ynode.lineno, ("C12",))
            s = self.resume(ex, ordinal, st, None)
            set_belt_ghost(s, g, waited=g["waited"] + (s.now - st.now))
            return [(NONE, s)]
        raise Unsupported("yield of %r in a belt mover (line %d)" % (value, ynode.lineno))


def belt_ghost(st, entry):
    if "belt" not in st.ghost:
        st.ghost["belt"] = {"moved": z3.RealVal(0), "waited": z3.RealVal(0), "interrupted": z3.BoolVal(False),
                            "start": entry.now}
    return st.ghost["belt"]


def set_belt_ghost(s, g, **kw):
    d = dict(g)
    d.update(kw)
    s.ghost["belt"] = d
    if s.ghost.get("resume_old") is not None:
        s.ghost["resume_old"].ghost["belt"] = d


class HeadOnlyLoop:
    """while-loop of the filter store's _trigger_reserve_get: _do_reserve_get returns a falsy value, so the loop
    body always ends in `break`; at the head nothing has happened yet."""
    variant = None
    props = ("C04", "C05")

    def __init__(self, lib, cls):
        self.lib, self.cls = lib, cls

    def havoc(self, ex, st, node, ordinal):
        for nm in ("proceed", "reserve_get_event"):
            st.loc[nm] = None

    def inv(self, ex, entry, st, mode):
        return [("first-iteration-only", st.loc["idx"].t == 0)]


class FilterScanLoop:
    """for-loop of the filter store's _do_reserve_get: the items scanned so far do not satisfy the filter and
    nothing has been modified (the body ends in `break` as soon as it modifies the store)."""
    variant = None
    props = ("C04", "C06")

    def __init__(self, lib, cls):
        self.lib, self.cls = lib, cls

    def havoc(self, ex, st, node, ordinal):
        tag = "lh%s" % _ctr()
        st.loc["__i%d" % ordinal] = Num(z3.Int(tag + ".i"))
        logic.REG.index_consts.add(tag + ".i")
        for n in ast_assigned(node):
            st.loc[n] = None

    def inv(self, ex, entry, st, mode):
        i = st.loc["__i0"].t
        e = ex.ctx.args["event"].t
        It, n = st.f[ITEMS], st.f[RE].len
        lib = self.lib
        return [("index-range", z3.And(0 <= i, i <= It.len - n)),
                ("scanned-items-do-not-match", Forall(1, lambda j: z3.Implies(
                    z3.And(n <= j, j < n + i), z3.Not(lib.filt(st, e, It.at(j).t))), [It.len], "scanned"))]


class BeltPhaseLoop:
    """`while remaining > 0: try: start = now; yield timeout(remaining); ...; break  except Interrupt: remaining -=
    now - start; yield resume_event`  (the two travel phases of the belt movers).

    The loop head is only ever reached at process start or right after a resumption, with no store write in
    between (syntactic obligation), so it is treated as a resumption point: fields are havocked under the rely.
    The invariant is the ghost travel account: moved + remaining == time to cover up to the end of this phase."""
    variant = None
    props = ("C12",)
    cut = True      # explored once: the head state does not depend on how the loop was reached

    def __init__(self, lib, cls, phase):
        self.lib, self.cls, self.phase = lib, cls, phase

    def cut_ghost(self, st):
        if self.phase == 0:
            return          # single entry (process start): nothing path-specific yet
        for k in ("local_events", "fired"):
            st.ghost.pop(k, None)

    def _rem(self, ex, st):
        node = ex.ctx.loop_nodes[self.phase]
        t = node.test
        if not (t.__class__.__name__ == "Compare" and t.left.__class__.__name__ == "Name" and len(t.ops) == 1
                and t.ops[0].__class__.__name__ == "Gt"):
            raise Unsupported("phase loop test shape (line %d)" % node.lineno)
        v = st.loc.get(t.left.id)
        if not isinstance(v, Num):
            raise Unsupported("phase loop counter %s is not a number" % t.left.id)
        return v.t

    def havoc(self, ex, st, node, ordinal):
        from pyvc.contract import _fresh_like
        y = ex.ctx.yields
        g = belt_ghost(st, ex.ctx.old)
        s = y.resume(ex, 100 + ordinal, st, None)
        tag = "ph%d_%s" % (ordinal, _ctr())
        set_belt_ghost(s, g, moved=z3.Real(tag + ".moved"), waited=z3.Real(tag + ".waited"),
                       interrupted=z3.Bool(tag + ".interrupted"))
        for n in ast_assigned(node):
            cur = s.loc.get(n)
            s.loc[n] = _fresh_like(cur, "%s.%s" % (tag, n)) if cur is not None else None
        st.__dict__.update(s.__dict__)

    def inv(self, ex, entry, st, mode):
        g = belt_ghost(st, ex.ctx.old)
        x = ex.ctx.args["item"]
        T = x.items[1].t
        p1 = ex.ctx.con.phase1(st, x)
        rem = self._rem(ex, st)
        out = [("travel.clock", st.now == g["start"] + g["moved"] + g["waited"]),
               ("travel.waiting-nonneg", g["waited"] >= 0),
               ("travel.moved-nonneg", g["moved"] >= 0),
               ("travel.never-stopped-means-no-waiting", z3.Implies(z3.Not(g["interrupted"]), g["waited"] == 0))]
        if self.phase == 0:
            out.append(("travel.phase1-account", z3.And(g["moved"] + rem == p1, rem >= 0)))
            for ev in entry.ghost.get("local_events", []):
                out.append(("phase1-event-not-fired-yet", z3.Not(trig(st, ev))))
        else:
            out.append(("travel.phase2-account", z3.And(g["moved"] + rem == T, g["moved"] >= p1, z3.Or(
                rem >= 0, z3.And(rem == T - p1, g["moved"] == p1)))))
        if mode == "prove":
            ref = st.ghost.get("resume_old") or ex.ctx.old
            bad = [nm for nm in st.f if st.f[nm] is not ref.f.get(nm)]
            out.append(("no-store-write-since-the-last-resumption", z3.BoolVal(not bad)))
        return out


class InvLoop:
    """loop whose head invariant is the full class invariant (every list may change in the body)."""
    variant = None

    def __init__(self, lib, cls, props):
        self.lib, self.cls, self.props = lib, cls, props

    def havoc(self, ex, st, node, ordinal):
        lib, cls = self.lib, self.cls
        tag = "lh%s" % _ctr()
        for nm, kind in lib.schema(cls).items():
            if nm in lib.rely_stable(cls) or kind[0] != "list":
                continue
            st.f[nm] = V.mk_value("%s.%s" % (tag, nm), kind)
        st.heap_arr("triggered")
        st.havoc_heap("triggered", tag)
        idxname = "__i%d" % ordinal
        if idxname in st.loc:
            st.loc[idxname] = Num(z3.Int(tag + ".i"))
            logic.REG.index_consts.add(tag + ".i")
        for n in ast_assigned(node):
            if n not in ("self",):
                st.loc[n] = None
        self.extra_havoc(ex, st, tag)

    def extra_havoc(self, ex, st, tag):
        pass

    def inv(self, ex, entry, st, mode):
        out = []
        for nm, cl in self.lib.validity(self.cls, st, ex.ctx.con):
            out.append((nm, cl))
        for nm, cl, props in self.lib.invariant(self.cls, st, side=mode):
            out.append((nm, cl, props))
        for k, v in st.loc.items():
            if k.startswith("__i") and isinstance(v, Num):
                out.append(("index-nonneg", v.t >= 0))
        return out + self.extra_inv(ex, entry, st, mode)

    def extra_inv(self, ex, entry, st, mode):
        return []


class FleetMoverLoop(InvLoop):
    """for-loop of FleetStore.move_to_ready_items: besides the class invariant, requests are only ever granted
    from the head of the two queues (prefix/suffix form relative to the loop entry)."""

    def extra_inv(self, ex, entry, st, mode):
        out = []
        for Q, R, extra in ((QG, RG, RE), (QP, RP, None)):
            g = st.f[R].len - entry.f[R].len
            out.append(("%s.g-range" % Q, z3.And(0 <= g, g <= entry.f[Q].len)))
            eqs = V.list_eq_clauses(st.f[Q], V.list_slice_from(entry.f[Q], g), "Q=Q0[g:]")
            out.append(("%s.is-suffix.len" % Q, eqs[0]))
            out.append(("%s.is-suffix" % Q, eqs[1]))
            pref = V.list_slice_to(entry.f[Q], g)
            out.append(("%s.is-prefix" % R, V.list_eq_clauses(st.f[R], V.list_concat(entry.f[R], pref), "R")[1]))
            if extra:
                eqs = V.list_eq_clauses(st.f[extra], V.list_concat(entry.f[extra], pref), "Re")
                out.append(("%s.len" % extra, eqs[0]))
                out.append(("%s.is-prefix" % extra, eqs[1]))
        return out


class ActivationLoop(InvLoop):
    """`while True` of FleetStore.fleet_activation_process.  Besides the class invariant the loop must make
    progress (C20): when control returns to the head, either simulated time has advanced since the previous
    head, or the one-shot activation event is untriggered again (so the next any_of really blocks)."""

    def extra_havoc(self, ex, st, tag):
        st.ghost["head_now"] = z3.Real(tag + ".now")
        st.now = st.ghost["head_now"]
        st.f["activate_fleet"] = VObj(z3.Int(tag + ".af"), "event")
        nid = z3.Int(tag + ".next_id")
        st.pc.append(nid >= st.next_id)
        st.next_id = nid
        for nm, kind in self.lib.schema(self.cls).items():
            if kind[0] != "list" and nm not in self.lib.rely_stable(self.cls) and nm != "activate_fleet":
                st.f[nm] = V.mk_value("%s.%s" % (tag, nm), kind)

    def extra_inv(self, ex, entry, st, mode):
        out = [("delay-positive", st.f["delay"].t > 0), ("time", st.now >= 0)]
        if mode == "prove" and "head_now" in st.ghost:
            af = st.f["activate_fleet"].t
            out.append(("progress.time-advanced-or-activation-event-rearmed",
                        z3.Or(st.now > st.ghost["head_now"], z3.Not(trig(st, af)))))
        return out


def ast_walk(node):
    import ast
    return ast.walk(node)


def ast_assigned(node):
    import ast
    names = set()
    for n in ast.walk(node):
        if isinstance(n, ast.Name) and isinstance(n.ctx, ast.Store):
            names.add(n.id)
    return names


class TriggerLoop:
    """invariant of the while loop in _trigger_reserve_put/_trigger_reserve_get."""
    variant = None

    def __init__(self, lib, cls, side):
        self.lib = lib
        self.cls = cls
        self.side = side
        self.Q, self.R = (QP, RP) if side == "put" else (QG, RG)
        self.props = ("C04", "C05")

    def havoc(self, ex, st, node, ordinal):
        p = PROFILES[self.cls]
        tag = "lh%s" % _ctr()
        mods = [self.Q, self.R]
        if self.side == "get":
            mods.append(RE)
            if p["ready"]:
                mods.append(RI)
        for nm in mods:
            st.f[nm] = V.mk_base_list("%s.%s" % (tag, nm), st.f[nm].ekind)
        st.heap_arr("triggered")
        st.havoc_heap("triggered", tag)
        st.loc["idx"] = Num(z3.Int(tag + ".idx"))
        logic.REG.index_consts.add(tag + ".idx")
        for nm in ("proceed", "reserve_put_event", "reserve_get_event"):
            st.loc[nm] = None    # dead at the loop head (always assigned before use in the body)
        nid = z3.Int(tag + ".next_id")
        st.next_id = st.next_id  # no allocation in the loop

    def inv(self, ex, entry, st, mode):
        lib, cls = self.lib, self.cls
        p = PROFILES[cls]
        Q, R = self.Q, self.R
        out = []
        g = st.f[R].len - entry.f[R].len
        idx = st.loc["idx"].t
        out.append(("g-range", z3.And(0 <= g, g <= entry.f[Q].len)))
        eqs = V.list_eq_clauses(st.f[Q], V.list_slice_from(entry.f[Q], g), "Q=Q0[g:]")
        out.append(("queue-is-suffix.len", eqs[0]))
        out.append(("queue-is-suffix", eqs[1]))
        eqs = V.list_eq_clauses(st.f[R], V.list_concat(entry.f[R], V.list_slice_to(entry.f[Q], g)), "R=R0++Q0[:g]")
        out.append(("granted-is-prefix", eqs[1]))
        if self.side == "get":
            eqs = V.list_eq_clauses(st.f[RE], V.list_concat(entry.f[RE], V.list_slice_to(entry.f[Q], g)), "Re")
            out.append(("reserved-events.len", eqs[0]))
            out.append(("reserved-events", eqs[1]))
            if p["ready"]:
                out.append(("Ri-len", st.f[RI].len == entry.f[RI].len + g))
                out.append(("Ri-prefix", V.forall_idx(entry.f[RI], lambda i, x: st.f[RI].at(i).t == x.t, "Ri-prefix")))
        out.append(("idx-range", z3.And(0 <= idx, idx <= st.f[Q].len)))
        grantable = lib.grantable_put if self.side == "put" else lib.grantable_get
        out.append(("skipped-not-grantable", z3.Implies(idx > 0, z3.Not(grantable(cls, st)))))
        out.append(("grants-had-room", z3.Implies(g >= 1, grantable(cls, entry))))
        out.append(("no-grant-no-event-touched", z3.Implies(g == 0, st.heap_arr("triggered") == entry.heap_arr("triggered"))))
        for k, t in enumerate(entry.ghost.get("lemma_terms", [])):
            out.append(("foreign-events-untouched.%d" % k, z3.Implies(FOREIGN(t), trig(st, t) == trig(entry, t))))
        # structural invariant at the loop head (inverse-function form when assumed, two-variable form as goal)
        return out + self._struct(st, mode)

    def _struct(self, st, mode):
        out = []
        for nm, cl, props in self.lib.invariant(self.cls, st, side=mode):
            if nm in StoreLib.STRUCT_SKIP:
                continue
            out.append(("struct." + nm, cl, props))
        return out


def _fired_callback(st, fname):
    """the path ended with succeed() on a locally created event whose callbacks contain `fname`"""
    cbs = st.ghost.get("callbacks", [])
    fired = st.ghost.get("fired", [])
    for ev, fn in cbs:
        if fn == fname and any(ev.eq(f) for f in fired):
            return True
    return False


def _insertion_witness(st):
    """callee-side witness of "there is a position at which the new request was inserted": recorded by list.sort()
    (where it moved the appended element) and list.insert().  An implementation that places the request in some
    other way has no witness: the unit is then undecided rather than judged against a guessed position."""
    sp = st.ghost.get("sort_pos")
    if not sp:
        raise Unsupported("no witness for the position of the new request (neither sort() nor insert() was used)")
    return sp[-1]


def _spawn_ok(c, gname, pname, value):
    sp = [x for x in c.new.ghost.get("spawned", []) if x[0] == gname]
    sp0 = [x for x in c.old.ghost.get("spawned", []) if x[0] == gname]
    new = sp[len(sp0):]
    if len(new) != 1:
        return False
    return V.eq(new[0][1][pname], value)


_UF = {}


def _ufilt():
    if "f" not in _UF:
        _UF["f"] = z3.Function("user_filter", z3.IntSort(), z3.IntSort(), z3.BoolSort())
    return _UF["f"]


_c = [0]


def _ctr():
    return logic.fresh("n").decl().name().split("!")[1]


def _real(n):
    n = V.as_num(n)
    return z3.ToReal(n.t) if n.is_int else n.t


def dump_value(v, m):
    return _dumper(m)(v)


def dump_state(lib, st, m, extra_ids=()):
    val = _dumper(m)

    def ev(t):
        x = m.eval(t, model_completion=True)
        try:
            return x.as_long()
        except Exception:
            return str(x)
    out = {"fields": {k: val(v) for k, v in st.f.items()}, "now": ev(st.now), "active_process": ev(st.active),
           "next_id": ev(st.next_id)}
    heap = {}
    for attr in ("triggered", "requesting_process", "priority_to_put", "priority_to_get"):
        if attr in st.h and st.h[attr] is not None:
            ids = set(extra_ids)
            for k, v in out["fields"].items():
                if isinstance(v, list):
                    for x in v:
                        if isinstance(x, int):
                            ids.add(x)
            heap[attr] = {str(i): str(m.eval(z3.Select(st.h[attr], z3.IntVal(i)), model_completion=True)) for i in sorted(ids)}
    out["heap"] = heap
    return out


def _dumper(m):
    def ev(t):
        v = m.eval(t, model_completion=True)
        try:
            return v.as_long()
        except Exception:
            s = str(v)
            return s

    def val(v):
        if isinstance(v, SList):
            n = ev(v.len)
            if not isinstance(n, int) or n < 0 or n > 40:
                return {"len": n}
            return [val(v.at(z3.IntVal(i))) for i in range(n)]
        if isinstance(v, Num):
            if v.inf is not None and z3.is_true(m.eval(v.inf, model_completion=True)):
                return "inf"
            return ev(v.t)
        if isinstance(v, VBool):
            return str(m.eval(v.t, model_completion=True))
        if isinstance(v, VObj):
            return ev(v.t)
        if isinstance(v, VStr):
            c = ev(v.t)
            return V.str_of_code(c) if isinstance(c, int) else c
        if isinstance(v, V.VTuple):
            return [val(x) for x in v.items]
        if isinstance(v, V.VOpt):
            return None if z3.is_true(m.eval(v.isnone, model_completion=True)) else val(v.val)
        if isinstance(v, VNone):
            return None
        if isinstance(v, V.VDyn):
            tag = ev(v.tag)
            names = {0: "none", 1: "int", 2: "float", 3: "str", 4: "callable", 5: "generator", 6: "object", 7: "bool"}
            d = {"dyn": names.get(tag, tag)}
            if tag in (1, 2, 7):
                d["num"] = ev(v.num)
            if tag == 3:
                c = ev(v.s)
                d["str"] = V.str_of_code(c) if isinstance(c, int) else c
            return d
        return repr(v)
    return val
