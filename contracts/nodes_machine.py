"""contracts.nodes_machine -- Machine._push_item, Machine.worker, Machine.behaviour"""
import ast
import re
import z3
from pyvc import values as V
from pyvc import logic
from pyvc.logic import Forall, Exists
from pyvc.contract import FnContract, Def, Clause, ExcCase, Structural, _fresh_like
from pyvc.execute import VTimeout
from pyvc.values import Num, VObj, VBool, VStr, VOpaque, NONE, SList, Unsupported, VDyn, VOpt
from contracts.nodes_proc import sel, sc, tokens_consumed_clauses, put_count, PUT, GET, store_of_edge, oracle
from contracts.nodes_sink import ProcLoop, CancelLoop
from contracts.nodes_sl import FrameLoop, MIRROR, TT
from contracts.nodes_source import mk_push_item, edges_assumptions, selection_ready, ScanLoop, mk_reset

ACC_FIELDS = tuple(TT + k for k in MIRROR) + tuple(MIRROR.values()) + (
    TT + "SETUP_STATE", "total_time_setup", "stats.last_state_change_time", "state_rep", "num_workers",
    "time_last_occupancy_change", "time_per_work_occupancy", "worker_thread_list",
    "per_thread_total_time_in_blocked_state", "per_thread_total_time_in_processing_state")


def _n():
    return logic.fresh("n").decl().name().split("!")[1]


def cur_ordinal(st):
    return sorted((k for k in st.loc if re.match(r"__i\d+$", k)), key=lambda k: int(k[3:]))[-1]


class IndexMatchLoop:
    """`for i in range(len(self.in_edges)): if <chosen_event.resourcename is the store of in_edges[i]>: edge_index_to_print = i`
    after k rounds edge_index_to_print is the position of the chosen token's edge if that position is < k, else None."""
    variant = None
    props = ("C15",)

    def __init__(self, fam_field):
        self.fam_field = fam_field

    def havoc(self, ex, st, node, ordinal):
        tag = "lh%s" % _n()
        st.loc["__i%d" % ordinal] = Num(z3.Int(tag + ".i"))
        logic.REG.index_consts.add(tag + ".i")
        st.loc["i"] = None
        st.loc["edge_index_to_print"] = VOpt(z3.Bool(tag + ".none"), Num(z3.Int(tag + ".idx")))

    def inv(self, ex, entry, st, mode):
        i = st.loc[cur_ordinal(st)].t
        edges = st.f["in_edges"].val
        chosen = st.f["chosen_event"].val.t
        rn = sel(st, "resourcename", chosen)
        eip = V.to_opt(st.loc["edge_index_to_print"], VOpt(z3.BoolVal(False), Num(0)))
        # position of the chosen token in its family = index of its edge
        fam = ex.deref(st.f[self.fam_field], st)
        base = fam.at(z3.IntVal(0)).t
        p = chosen - base
        return [("index-range", z3.And(0 <= i, i <= edges.len)),
                ("chosen-is-family-member", z3.And(0 <= p, p < edges.len, rn == store_of_edge(st, edges.at(p).t))),
                ("match-found-iff-passed", z3.If(p < i, z3.And(z3.Not(eip.isnone), eip.val.t == p), eip.isnone))]


def install(lib):
    C = lib.contracts
    C["Machine"]["_push_item"] = mk_push_item(lib, "Machine", False)
    C["Machine"]["reset"] = mk_reset(lib, "Machine", ("in", "out"), extra_none=("processing_delay",))

    shared = ACC_FIELDS

    def rely(st0, st1):
        out = []
        for nm, cl, props in lib.invariant("Machine", st1, side="assume"):
            out.append((nm, cl))
        out.append(("threads-within-capacity", st1.f["worker_thread_list"].len <= st1.f["work_capacity"].t))
        out.append(("len-nonneg", st1.f["worker_thread_list"].len >= 0))
        out.append(("hist-len", st1.f["time_per_work_occupancy"].len >= 0))
        out += running(st1)
        # every live worker is listed once (behaviour appends each spawned process exactly once)
        g = z3.Function("wl_pos!%s" % _n(), z3.IntSort(), z3.IntSort())
        out.append(("workers-listed-once", V.forall_idx(st1.f["worker_thread_list"], lambda i, x: g(x.t) == i, "wl")))
        return out

    def running(st):
        """facts about a machine that has finished its set-up and has at least one live worker (this one)"""
        rep, last = st.f["state_rep"], st.f["stats.last_state_change_time"]
        return [("machine-is-past-set-up", z3.And(z3.Not(rep.isnone), rep.val.items[0].t >= 0, rep.val.items[1].t >= 0,
                                                  z3.Not(last.isnone))),
                ("this-worker-is-counted-in-the-occupancy", st.f["num_workers"].t >= 1)]

    # ------------------------------------------------------------------ worker
    def worker_entry(st, args):
        oe = st.f["out_edges"]
        out = [("out-edges-present", z3.And(z3.Not(oe.isnone), oe.val.len >= 1)),
               ("policy-ready", selection_ready(st.f["out_edge_selection"], oe.val.len)),
               ("delay-nonneg", args["processing_delay"].t >= 0),
               ("threads-within-capacity", st.f["worker_thread_list"].len <= st.f["work_capacity"].t),
               ("K-process: the worker starts in the instant it was spawned, holding the slot of its request", z3.BoolVal(True))]
        out += edges_assumptions(st, "out_edges")
        for nm, cl, props in lib.invariant("Machine", st, side="assume"):
            out.append((nm, cl))
        out += running(st)
        return out

    def fresh_recount(ex, ordinal, ynode, st):
        """C17 (I-fresh): the stored state_rep is the count made by the last update_state_rep (its own contract); here: since
        that recount -- or since this segment began, if it made none -- no thread state and not the worker list has
        changed, so what is charged while the process waits is the activity the workers really have"""
        base = st.ghost.get("rep_base")
        if base is None or base[2] != st.ghost.get("seg_id", 0):      # (a recount made in an earlier segment is stale)
            lr = st.ghost.get("last_resume")
            if lr is None and ex.ctx.fname == "behaviour":
                return      # the set-up wait: no worker exists yet and the accounting has not started (state_rep is (-1, -1))
            base = (st.ghost["last_resume_thread_state"], lr["worker_thread_list"]) if lr is not None else \
                (ex.ctx.old.heap_arr("thread_state"), ex.ctx.old.f["worker_thread_list"])
        ex.ctx.oblige("yield%d.state-rep-recounted-after-the-last-thread-state-change" % ordinal, st,
                      [st.heap_arr("thread_state") == base[0]], "yield", ynode.lineno, ("C17",))
        if st.f["worker_thread_list"] is not base[1]:
            for k_, cl_ in enumerate(V.list_eq_clauses(st.f["worker_thread_list"], base[1], "wl-since-recount")):
                ex.ctx.oblige("yield%d.state-rep-recounted-after-the-last-worker-list-change.%d" % (ordinal, k_), st, [cl_], "yield", ynode.lineno, ("C17",))

    def worker_at_yield(ex, ordinal, ynode, value, st):
        if ordinal == 0:
            ok = isinstance(value, VTimeout)
            ex.ctx.oblige("yield0.first-wait-is-the-processing-delay", st,
                          [value.delay.t == ex.ctx.args["processing_delay"].t if ok else z3.BoolVal(False)], "yield",
                          ynode.lineno, ("C08",))
        for nm, cl, props in lib.invariant("Machine", st, side="prove"):
            ex.ctx.oblige("yield%d.inv.%s" % (ordinal, nm), st, [cl], "yield-inv", ynode.lineno, props)
        fresh_recount(ex, ordinal, ynode, st)
        # C18: whenever the worker waits, the processed counter equals the number of items it has really pushed
        old = ex.ctx.old
        it = ex.ctx.args["item"].t
        ex.ctx.oblige("yield%d.processed-counter-equals-items-pushed-so-far" % ordinal, st,
                      [st.f["stats.num_item_processed"].t - old.f["stats.num_item_processed"].t == put_count(st, it)],
                      "yield", ynode.lineno, ("C18",))

    def worker_finish(ex, outcomes):
        ctx = ex.ctx
        for k, o in enumerate(outcomes):
            if o.kind not in ("next", "return"):
                continue
            st = o.state
            old = ctx.old
            it = ctx.args["item"].t
            puts = put_count(st, it)
            allputs = st.ghost.get("puts", [])
            ddis = st.f["stats.num_item_discarded"].t - old.f["stats.num_item_discarded"].t
            dpro = st.f["stats.num_item_processed"].t - old.f["stats.num_item_processed"].t
            blocking = old.f["blocking"].t
            ob = lambda nm, g, props: ctx.oblige("exit%d.%s" % (k, nm), st, [g], "post", 0, props)
            ob("item-pushed-once-or-discarded-and-counted", z3.And(puts + ddis == 1, puts >= 0, ddis >= 0), ("C03", "C09"))
            ob("only-its-own-item-is-pushed", z3.And(*[p[0] == it for p in allputs]) if allputs else z3.BoolVal(True), ("C03",))
            ob("processed-counter-counts-the-push", dpro == puts, ("C18",))
            ob("blocking-machine-never-discards", z3.Implies(blocking, ddis == 0), ("C09",))
            ws = [w[1] for w in st.ghost.get("waits", [])[1:] if w[1] is not None and w[2] != "VTimeout"]
            ob("non-blocking-machine-never-waits-with-a-finished-item",
               z3.Implies(z3.Not(blocking), z3.Not(z3.Or(*ws)) if ws else z3.BoolVal(True)), ("C09",))
            for nm, cl in tokens_consumed_clauses(st):
                ob(nm, cl, ("C10", "C08"))
            ob("worker-slot-released", z3.BoolVal(bool(st.ghost.get("released"))), ("C08",))
            # C17: the finished worker removes itself (and nobody else) from the list of live workers
            lr = st.ghost.get("last_resume")
            if lr is not None:
                L0, L1 = lr["worker_thread_list"], st.f["worker_thread_list"]
                me = st.active
                ob("removes-itself-from-the-live-workers", V.forall_idx(L1, lambda i, x: x.t != me, "me-gone"), ("C17",))
                ob("removes-nobody-else.len", L1.len >= L0.len - 1, ("C17",))
                ob("removes-nobody-else", Forall(1, lambda i: z3.Implies(z3.And(0 <= i, i < L1.len), z3.Or(
                    L1.at(i).t == L0.at(i).t, z3.And(L1.at(i).t == L0.at(i + 1).t, L0.at(i).t == me))), [L1.len], "others-stay"),
                   ("C17",))
            # C15: the recorded selection is the edge the item really went to
            H0, H1 = old.f["stats.out_edge_selection"], st.f["stats.out_edge_selection"]
            oe = old.f["out_edges"].val
            if allputs:
                ob("routing-recorded-truthfully", z3.Implies(puts == 1, z3.And(
                    H1.len == H0.len + 1, 0 <= H1.at(H0.len).t, H1.at(H0.len).t < oe.len,
                    allputs[-1][1] == store_of_edge(st, oe.at(H1.at(H0.len).t).t))), ("C15",))
            for nm, cl, props in lib.invariant("Machine", st, side="prove"):
                ob("inv." + nm, cl, props)
        return outcomes
    w = FnContract(
        "worker", [("item", ("obj", "item"), None), ("processing_delay", ("num", "real"), None),
                   ("req_token", ("obj", "request"), None)],
        is_generator=True, uses_inv=False, keeps_inv=False, entry_assume=worker_entry,
        excs=[ExcCase("AssertionError", lambda c: z3.BoolVal(True), "user-index-rejected", unchanged=False, props=("C20", "C15"), may=True),
              ExcCase("TypeError", lambda c: z3.BoolVal(True), "user-index-not-a-number", unchanged=False, props=("C20",), may=True)],
        props=("C03", "C08", "C09", "C10", "C15", "C17", "C18", "C20"))
    w.no_frame = True
    w.finish = worker_finish
    w.at_yield = worker_at_yield
    w.unit_param = "item"
    w.shared_fields = shared
    w.rely = rely
    w.nshards = 8
    w.slot_of = "req_token"
    w.loops = {0: CancelLoop(lambda st: st.loc["chosen_put_event"].t), 1: ScanLoop("out_edges")}
    C["Machine"]["worker"] = w

    # ------------------------------------------------------------------ behaviour
    bfields = ACC_FIELDS + ("in_edge_events", "chosen_event", "item_in_process", "stats.processing_delay",
                            "stats.in_edge_selection")

    def bhead(ex, st, mode):
        ie, oe = st.f["in_edges"], st.f["out_edges"]
        out = [("edges-present", z3.And(z3.Not(ie.isnone), ie.val.len >= 1, z3.Not(oe.isnone), oe.val.len >= 1)),
               ("in-policy-ready", selection_ready(st.f["in_edge_selection"], ie.val.len)),
               ("out-policy-ready", selection_ready(st.f["out_edge_selection"], oe.val.len)),
               ("processing-delay-given", st.f["processing_delay"].tag != V.T_NONE),

               ("threads-within-capacity", z3.And(st.f["worker_thread_list"].len >= 0,
                                                  st.f["worker_thread_list"].len <= st.f["work_capacity"].t)),
               ("state-rep-set", z3.Not(st.f["state_rep"].isnone)),
               ("nothing-in-hand", st.f["item_in_process"].isnone),
               ("A-start.set-up-begins-at-time-0-with-all-totals-0", z3.Implies(
                   st.f["state_rep"].val.items[0].t == -1, z3.And(
                       st.now == 0, *[st.f[TT + k].t == 0 for k in list(MIRROR) + ["SETUP_STATE"]])))]
        out += edges_assumptions(st, "in_edges")
        return out

    def bback(ex, head_f, st):
        gets = st.ghost.get("gets", [])
        sp = [x for x in st.ghost.get("spawned", []) if x[0] == "worker"]
        out = []
        # C17 (I-fresh) at the end of a round: the new worker is listed and marked before the last recount of the round
        base = st.ghost.get("rep_base")
        lr = st.ghost.get("last_resume")
        if base is None or base[2] != st.ghost.get("seg_id", 0):
            base = (st.ghost.get("last_resume_thread_state"), lr["worker_thread_list"]) if lr is not None else None
        if base is not None and base[0] is not None:
            out.append(("state-rep-recounted-after-the-last-thread-state-change", st.heap_arr("thread_state") == base[0], ("C17",)))
            if st.f["worker_thread_list"] is not base[1]:
                for k_, cl_ in enumerate(V.list_eq_clauses(st.f["worker_thread_list"], base[1], "wl-since-recount")):
                    out.append(("state-rep-recounted-after-the-last-worker-list-change.%d" % k_, cl_, ("C17",)))
        if not gets:
            out.append(("no-worker-without-an-item", z3.BoolVal(len(sp) == 0)))
            return out
        out.append(("pulls-exactly-one-item-per-round", z3.BoolVal(len(gets) == 1)))
        out.append(("hands-it-to-exactly-one-worker", z3.BoolVal(len(sp) == 1)))
        if len(gets) == 1 and len(sp) == 1:
            item = gets[0][0]
            a = sp[0][1]
            ai = a["item"].val.t if isinstance(a["item"], VOpt) else a["item"].t
            out.append(("the-worker-gets-the-pulled-item", ai == item))
            out.append(("pull-happens-while-holding-a-worker-slot", z3.BoolVal(bool(st.ghost.get("slot_at_get")))))
            out.append(("the-worker-inherits-that-slot", z3.Or(*[a["req_token"].t == s_ for s_ in st.ghost.get("slots", [])])
                        if st.ghost.get("slots") else z3.BoolVal(False)))
            # C08: the delay is drawn exactly once per item and is the worker's delay
            d = head_f["processing_delay"] if "processing_delay" in head_f else st.f["processing_delay"]
            cs = [c_ for c_ in st.ghost.get("consults", []) if True]
            drawn = z3.Or(d.tag == V.T_GEN, d.tag == V.T_FUNC)
            cnt = z3.Sum([z3.If(z3.And(c_[3], c_[1] == d.oid), 1, 0) for c_ in cs]) if cs else z3.IntVal(0)
            out.append(("processing-delay-drawn-exactly-once", z3.Implies(drawn, cnt == 1)))
            early = [c_ for c_ in cs if len(c_) > 4 and c_[4] == 0]
            out.append(("processing-delay-drawn-for-the-item-just-pulled", z3.And(*[
                z3.Not(z3.And(c_[3], c_[1] == d.oid)) for c_ in early]) if early else z3.BoolVal(True), ("C08",)))
            # C15: the recorded in-edge is the edge the item was taken from
            H0, H1 = head_f["stats.in_edge_selection"], st.f["stats.in_edge_selection"]
            ie = st.f["in_edges"].val
            out.append(("in-edge-recorded-truthfully", z3.And(
                H1.len == H0.len + 1, 0 <= H1.at(H0.len).t, H1.at(H0.len).t < ie.len,
                gets[0][1] == store_of_edge(st, ie.at(H1.at(H0.len).t).t))))
        return out

    def b_at_yield(ex, ordinal, ynode, value, st):
        rep = st.f["state_rep"]
        # during set-up the accounting invariant is not yet established
        for nm, cl, props in lib.invariant("Machine", st, side="prove"):
            ex.ctx.oblige("yield%d.inv.%s" % (ordinal, nm), st, [cl], "yield-inv", ynode.lineno, props)
        fresh_recount(ex, ordinal, ynode, st)
    b = FnContract(
        "behaviour", [], is_generator=True, uses_inv=False, keeps_inv=False,
        entry_assume=lambda st, args: edges_assumptions(st, "in_edges") + edges_assumptions(st, "out_edges") + [
            ("A-start: the node is created at time 0 with all totals at 0", z3.And(
                st.now == 0, st.f["stats.last_state_change_time"].isnone, st.f["time_last_occupancy_change"].t == 0,
                st.f["num_workers"].t == 0, st.f["worker_thread_list"].len == 0,
                st.f["time_per_work_occupancy"].len == st.f["work_capacity"].t + 1,
                *[st.f[TT + k].t == 0 for k in list(MIRROR) + ["SETUP_STATE"]])),
            ("nothing-in-hand", st.f["item_in_process"].isnone),
            ("A-resource: worker_thread has capacity work_capacity and no users yet", z3.And(
                sel(st, "res_capacity", st.f["worker_thread"].t) == st.f["work_capacity"].t,
                sel(st, "res_users", st.f["worker_thread"].t) == 0))],
        excs=[ExcCase("AssertionError", lambda c: z3.BoolVal(True), "start-up-or-user-value-rejected", unchanged=False,
                      props=("C20",), may=True),
              ExcCase("ValueError", lambda c: z3.BoolVal(True), "start-up-rejected", unchanged=False, props=("C20",), may=True),
              ExcCase("TypeError", lambda c: z3.BoolVal(True), "user-value-not-a-number", unchanged=False, props=("C20",), may=True)],
        props=("C03", "C06", "C08", "C10", "C15", "C17", "C20"))
    b.has_normal_exit = False
    b.no_frame = True
    b.at_yield = b_at_yield
    b.shared_fields = tuple(f for f in ACC_FIELDS if f not in ("state_rep",))
    def brely(st0, st1):
        out = [x for x in rely(st0, st1) if x[0] not in ('machine-is-past-set-up', 'this-worker-is-counted-in-the-occupancy',
                                                          'threads-within-capacity')]
        k = len(st1.ghost.get("slots", []))
        cap = st1.f["work_capacity"].t
        # K-Resource: every live worker and the slot this process has just been granted hold distinct granted
        # requests of worker_thread, of which there are at most work_capacity
        rep0 = st0.f["state_rep"]
        insetup = z3.And(z3.Not(rep0.isnone), rep0.val.items[0].t == -1)
        for f in ACC_FIELDS:
            a, b_ = st0.f.get(f), st1.f.get(f)
            if isinstance(a, Num) and isinstance(b_, Num):
                # no other process of this node exists before the set-up is over (workers are spawned afterwards)
                out.append(("set-up.nobody-else-touches." + f, z3.Implies(insetup, a.t == b_.t)))
        out.append(("set-up.clock-not-started", z3.Implies(insetup, st1.f["stats.last_state_change_time"].isnone
                                                           == st0.f["stats.last_state_change_time"].isnone)))
        out.append(("K-Resource.threads-plus-own-slot-within-capacity", st1.f["worker_thread_list"].len + k <= cap))
        out.append(("K-Resource.occupancy-counts-the-live-workers", z3.And(
            st1.f["num_workers"].t >= 0, st1.f["num_workers"].t <= cap,
            z3.Implies(z3.BoolVal(k >= 1) if not st1.ghost.get("occupancy_added") else z3.BoolVal(False),
                       st1.f["num_workers"].t + 1 <= cap))))
        return out
    b.rely = brely
    b.nshards = 8
    b.loops = {0: ProcLoop(lib, "Machine", bfields, back=bback, head=bhead, props=("C03", "C08", "C10", "C15"),
                           heaps=("thread_state", "item_to_put", "selector_kind"),
                           assume_only=lambda st: [("A-sources: the delay source and the selection policies are different objects",
                                                    z3.And(st.f["processing_delay"].oid != st.f["in_edge_selection"].oid,
                                                           st.f["processing_delay"].oid != st.f["out_edge_selection"].oid))]),
               1: IndexMatchLoop("in_edge_events"),
               2: CancelLoop(lambda st: st.f["chosen_event"].val.t)}
    C["Machine"]["behaviour"] = b

    # ------------------------------------------------------------------ __init__ (C20: bad parameter types are rejected)
    def delay_kind_ok(d):
        return z3.Or(d.tag == V.T_FUNC, d.tag == V.T_GEN, d.tag == V.T_INT, d.tag == V.T_FLOAT, d.tag == V.T_BOOL, d.tag == V.T_NONE)

    def m_ok(c):
        return z3.And(c.args["id"].tag == V.T_STR, c.args["node_setup_time"].is_num(), delay_kind_ok(c.args["processing_delay"]))
    mi = FnContract(
        "__init__", [("env", ("env",), None), ("id", ("dyn",), None), ("in_edges", ("opt", ("list", ("obj", "edge"))), NONE),
                     ("out_edges", ("opt", ("list", ("obj", "edge"))), NONE), ("node_setup_time", ("dyn",), V.dyn_of(Num(0))),
                     ("work_capacity", ("num", "int"), Num(1)), ("processing_delay", ("dyn",), V.dyn_of(Num(0))),
                     ("blocking", ("dyn",), V.dyn_of(VBool(True))), ("in_edge_selection", ("dyn",), V.dyn_of(VStr("FIRST_AVAILABLE"))),
                     ("out_edge_selection", ("dyn",), V.dyn_of(VStr("FIRST_AVAILABLE")))],
        pre=lambda st, args: [("work-capacity-positive", args["work_capacity"].t >= 1)],
        excs=[ExcCase("TypeError", lambda c: c.args["id"].tag != V.T_STR, "id-not-a-string", unchanged=False, props=("C20",)),
              ExcCase("ValueError", lambda c: z3.And(c.args["id"].tag == V.T_STR, z3.Not(m_ok(c))),
                      "setup-time-or-processing-delay-of-a-wrong-type", unchanged=False, props=("C20",))],
        normal_requires=m_ok,
        post=lambda c: [
            Clause("counters-start-at-zero", lambda c: z3.And(c.new.f["stats.num_item_processed"].t == 0,
                                                              c.new.f["stats.num_item_discarded"].t == 0), ("C18",)),
            Clause("accounting-starts-at-zero", lambda c: z3.And(*[c.new.f[TT + k].t == 0 for k in list(MIRROR) + ["SETUP_STATE"]],
                                                                 c.new.f["stats.last_state_change_time"].isnone,
                                                                 c.new.f["num_workers"].t == 0,
                                                                 c.new.f["worker_thread_list"].len == 0,
                                                                 c.new.f["time_per_work_occupancy"].len == c.args["work_capacity"].t + 1),
                   ("C17",)),
            Clause("worker-resource-has-work-capacity-slots", lambda c: z3.And(
                sel(c.new, "res_capacity", c.new.f["worker_thread"].t) == c.args["work_capacity"].t,
                sel(c.new, "res_users", c.new.f["worker_thread"].t) == 0), ("C08",)),
            Structural("starts-its-behaviour-process", lambda c: len(
                [x for x in c.new.ghost.get("spawned", []) if x[0] == "behaviour"]) == 1, ("C20",))],
        uses_inv=False, keeps_inv=False, is_init=True, props=("C20", "C17", "C18", "C08"))
    mi.no_frame = True
    C["Machine"]["__init__"] = mi
