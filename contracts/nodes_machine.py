def install(lib):
    pass
