"""contracts.nodes_proc -- process bodies of the nodes against the abstract edge interface (stub, filled in below)"""
from pyvc.values import Unsupported


def install(lib):
    pass


def chi(lib, cls, name, old, args):
    return None


def has_attr(lib, ex, v, name, st):
    return None


def call_env(lib, ex, name, args, kw, st, node):
    raise Unsupported("env.%s() (line %d)" % (name, node.lineno))


def call_obj(lib, ex, base, name, args, kw, st, node):
    raise Unsupported("%s.%s() (line %d)" % (base.kind, name, node.lineno))


def obj_attr(lib, ex, base, attr, st, lineno):
    import z3
    from pyvc import values as V
    if base.kind == "resource" and attr == "users":
        n = z3.Select(st.heap_arr("res_users"), base.t)
        return [(V.SList(n, lambda i: V.VOpaque("request"), ("any",)), st)]
    return [(st.heap_get(base, attr), st)]


def set_obj_attr(lib, ex, base, attr, v, st, lineno):
    return None


def listcomp(lib, ex, node, st):
    return None


def get_attr_other(lib, ex, base, attr, st, lineno):
    return None


def call_other(lib, ex, base, name, args, kw, st, node):
    return None
