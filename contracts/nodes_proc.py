"""contracts.nodes_proc -- process bodies of the nodes, verified against the ABSTRACT EDGE INTERFACE.

Abstract edge (what a node may assume about any Buffer / Fleet / ConveyorBelt, proved separately for each
concrete edge class on top of its store's contracts):

  t = e.reserve_put() / e.reserve_get()   fresh token t owned by the calling process, not consumed; it may or may not
                                          be triggered (granted) already.  After e.can_put() / e.can_get() answered b in
                                          the same atomic segment, the token is triggered iff b.
  e.put(t, x)     requires: t is a put token of e, owned by the caller, triggered, not consumed
                  effect:   t consumed, x handed over to e exactly once, truthy result, no exception
  x = e.get(t)    requires: t is a get token of e, owned, triggered, not consumed;  effect: t consumed, x = bound[t]
  e.reserve_put_cancel(t) / e.reserve_get_cancel(t)  (also reached through t.resourcename):
                  requires: t is an un-consumed token of e of that kind; effect: t consumed, returns True
  rely at every yield: an un-consumed token of this process stays un-consumed, a triggered one stays triggered,
                  pending ones may become triggered; simulated time does not decrease.

Tokens and items are linear ghost resources: at every loop head / function exit every token created since the
last head is consumed and every item taken in hand has been handed over exactly once or counted as discarded.
"""
import ast
import z3
from pyvc import values as V
from pyvc import logic
from pyvc.logic import Forall, Exists
from pyvc.contract import FnContract, Def, DefHeap, DefRes, Clause, ExcCase, Structural, apply_contract, PostCtx
from pyvc.execute import (Exc, Outcome, FieldRef, Exec, SelfRef, EnvRef, VTimeout, VGen, VAnyOf, VPyList, RecRef)
from pyvc.values import Num, VObj, VBool, VStr, VOpaque, VNone, NONE, SList, Unsupported, VDyn, VOpt, VTuple

PUT, GET = 1, 2
EDGE_CLASSES = ("Buffer", "Fleet", "ConveyorBelt")


def _n():
    return logic.fresh("n").decl().name().split("!")[1]


def sc(s):
    return V.str_const(s)


def sel(st, attr, t):
    return z3.Select(st.heap_arr(attr), t)


# ---------------------------------------------------------------------------
# edge / store objects


def store_of_edge(st, e):
    return sel(st, "edge_store", e)


def base_store(st, base):
    """store identity behind an edge object or a store object"""
    return store_of_edge(st, base.t) if base.kind == "edge" else base.t


def new_token(ex, st, store, kind, lineno, granted=None):
    s = st.fork()
    t = s.fresh_obj("event")
    for attr, val in (("tok_consumed", VBool(False)), ("tok_kind", Num(kind)), ("requesting_process", VObj(s.active, "proc")),
                      ("resourcename", VObj(store, "store"))):
        s.heap_set(t, attr, val)
    g = z3.Bool("granted!%s" % _n()) if granted is None else granted
    s.heap_set(t, "triggered", VBool(g))
    if kind == GET:
        # the item bound to a granted retrieval: a real flow item, distinct for distinct tokens (C02 of the store)
        s.heap_arr("tok_bound")
    s.ghost.setdefault("tokens", []).append(("one", t.t, kind, store, lineno))
    s.ghost["epoch"] = s.ghost.get("epoch", 0) + 1
    return t, s


def use_token(ex, st, base, tok, kind, what, lineno, props):
    """protocol obligations for put/get/cancel with token `tok` on `base`; returns (state with token consumed)"""
    ctx = ex.ctx
    if isinstance(tok, (VNone,)) or not isinstance(tok, (VObj, VOpt)):
        ctx.oblige("protocol.%s.token-is-a-reservation@L%d" % (what, lineno), st, [z3.BoolVal(False)], "call-pre", lineno, props)
        return None
    if isinstance(tok, VOpt):
        ctx.oblige("protocol.%s.token-is-a-reservation@L%d" % (what, lineno), st, [z3.Not(tok.isnone)], "call-pre", lineno, props)
        st = st.fork().assume(z3.Not(tok.isnone))
        tok = tok.val
    t = tok.t
    store = base_store(st, base)
    goals = [("token-of-this-edge", sel(st, "resourcename", t) == store),
             ("token-kind", sel(st, "tok_kind", t) == kind),
             ("token-not-used-or-cancelled-before", z3.Not(sel(st, "tok_consumed", t)))]
    if what in ("put", "get"):
        goals += [("token-granted", sel(st, "triggered", t)), ("token-own", sel(st, "requesting_process", t) == st.active)]
    for nm, g in goals:
        ctx.oblige("protocol.%s.%s@L%d" % (what, nm, lineno), st, [g], "call-pre", lineno, props)
    s = st.fork()
    for nm, g in goals:
        s.assume(g)
    s.heap_set(VObj(t, "event"), "tok_consumed", VBool(True))
    s.ghost["epoch"] = s.ghost.get("epoch", 0) + 1
    return s


def oracle(st, kind):
    """can_put()/can_get() snapshot of the current atomic segment: as long as nothing changes on the edges
    (same epoch) the answer for a store is one fixed boolean, and a reservation issued in that state is granted
    at once exactly when the answer is True (edge interface contract, proved for Buffer and Fleet: C11)"""
    ep = st.ghost.get("epoch", 0)
    key = "oracle%d" % kind
    cur = st.ghost.get(key)
    if cur is None or cur[0] != ep:
        cur = (ep, z3.Function("can%d!%s" % (kind, _n()), z3.IntSort(), z3.BoolSort()))
        st.ghost[key] = cur
    return cur[1]


def edge_call(lib, ex, base, name, args, kw, st, node):
    lineno = node.lineno
    store = base_store(st, base)
    if name in ("reserve_put", "reserve_get"):
        kind = PUT if name == "reserve_put" else GET
        granted = None
        cur = st.ghost.get("oracle%d" % kind)
        if cur is not None and cur[0] == st.ghost.get("epoch", 0):
            granted = cur[1](store)
        t, s = new_token(ex, st, store, kind, lineno, granted)
        return [(t, s)]
    if name in ("put", "get"):
        kind = PUT if name == "put" else GET
        s = use_token(ex, st, base, args[0] if args else NONE, kind, name, lineno, ("C07", "C01", "C02", "C20"))
        if s is None:
            return [(Exc("RuntimeError", lineno, "ill-formed %s" % name), st)]
        if name == "put":
            if len(args) < 2:
                raise Unsupported("put without item")
            x = args[1]
            if isinstance(x, VOpt):
                ex.ctx.oblige("protocol.put.item-is-not-None@L%d" % lineno, s, [z3.Not(x.isnone)], "call-pre", lineno, ("C03",))
                s.assume(z3.Not(x.isnone))
                x = x.val
            if not isinstance(x, VObj):
                raise Unsupported("put of %r" % (x,))
            s.ghost.setdefault("puts", []).append((x.t, store, lineno))
            return [(VBool(True), s)]
        tok = args[0].val if isinstance(args[0], VOpt) else args[0]
        s.ghost["slot_at_get"] = len(s.ghost.get("slots", [])) > 0
        item = VObj(sel(s, "tok_bound", tok.t), "item")
        s.assume(item.t >= 0)
        s.ghost.setdefault("gets", []).append((item.t, store, lineno))
        return [(item, s)]
    if name in ("reserve_put_cancel", "reserve_get_cancel"):
        kind = PUT if "put" in name else GET
        s = use_token(ex, st, base, args[0] if args else NONE, kind, name, lineno, ("C07", "C10"))
        if s is None:
            return [(Exc("RuntimeError", lineno, "ill-formed cancel"), st)]
        return [(VBool(True), s)]
    if name in ("can_put", "can_get"):
        s = st.fork()
        fn = oracle(s, PUT if name == "can_put" else GET)
        return [(VBool(fn(store)), s)]
    raise Unsupported("%s.%s() at line %d" % (base.kind, name, lineno))


# ---------------------------------------------------------------------------
# executor hooks


def call_obj(lib, ex, base, name, args, kw, st, node):
    if base.kind in ("edge", "store"):
        return edge_call(lib, ex, base, name, args, kw, st, node)
    if base.kind == "resource":
        if name == "request":
            s = st.fork()
            r = s.fresh_obj("request")
            s.ghost.setdefault("requests", []).append(r.t)
            return [(VObj(r.t, "request"), s)]
        if name == "release":
            return [(VObj(args[0].t, "release"), st)]
    if base.kind == "item":
        return item_call(lib, ex, base, name, args, kw, st, node)
    raise Unsupported("%s.%s() (line %d)" % (base.kind, name, node.lineno))


def item_call(lib, ex, base, name, args, kw, st, node):
    """BaseFlowItem methods by contract (helper/baseflowitem.py units verify them)"""
    s = st.fork()
    if name == "set_creation":
        s.heap_set(base, "timestamp_creation", Num(s.now))
        return [(NONE, s)]
    if name == "update_node_event":
        how = args[2] if len(args) > 2 else kw.get("event_type", VStr("entry"))
        s.heap_set(base, "timestamp_node_entry", V.ite(V.eq(how, VStr("entry")), Num(s.now), s.heap_get(base, "timestamp_node_entry")))
        s.heap_set(base, "timestamp_node_exit", V.ite(V.eq(how, VStr("exit")), Num(s.now), s.heap_get(base, "timestamp_node_exit")))
        return [(NONE, s)]
    if name == "add_item":
        x = args[0].val if isinstance(args[0], VOpt) else args[0]
        s.ghost.setdefault("packed", []).append((x.t, base.t, node.lineno))
        if "__pallet_items" in s.f:
            s.f["__pallet_items"] = V.list_append(s.f["__pallet_items"], x)
        return [(NONE, s)]
    raise Unsupported("item.%s() (line %d)" % (name, node.lineno))


def _nodeattr(st, attr):
    from pyvc.state import HEAP_SCHEMA
    key = "nodeattr:" + attr
    if key not in HEAP_SCHEMA:
        HEAP_SCHEMA[key] = ("num", "int")
    st.heap_arr(key)
    return key


def obj_attr(lib, ex, base, attr, st, lineno):
    if base.kind == "nodeobj":
        # attribute of the node object handed to a selector: shared mutable state (anyone may change it between
        # two next() calls)
        return [(st.heap_get(base, _nodeattr(st, attr)), st)]
    if base.kind == "resource" and attr == "users":
        n = sel(st, "res_users", base.t)
        return [(SList(n, lambda i: VOpaque("request"), ("any",)), st)]
    if base.kind == "edge":
        cls = sel(st, "edge_cls", base.t)
        if attr == "__class__":
            return [(VObj(base.t, "edgeclass"), st)]
        if attr == "id":
            return [(VOpaque("edge-id"), st)]
        if attr == "inbuiltstore":
            outs, ok = ex.raise_if(st, z3.Not(z3.Or(cls == sc("Buffer"), cls == sc("Fleet"))), "AttributeError", lineno,
                                   "conveyors have no inbuiltstore")
            if ok is not None:
                outs.append((VObj(store_of_edge(ok, base.t), "store"), ok))
            return outs
        if attr == "belt":
            outs, ok = ex.raise_if(st, cls != sc("ConveyorBelt"), "AttributeError", lineno, "only conveyors have a belt")
            if ok is not None:
                outs.append((VObj(store_of_edge(ok, base.t), "store"), ok))
            return outs
        raise Unsupported("edge.%s (line %d)" % (attr, lineno))
    if base.kind == "edgeclass" and attr == "__name__":
        return [(VStr(sel(st, "edge_cls", base.t)), st)]
    if base.kind == "event" and attr == "resourcename":
        return [(VObj(sel(st, "resourcename", base.t), "store"), st)]
    if base.kind == "item" and attr == "id":
        # identifiers are arbitrary user strings: two different items may carry the same id
        return [(VObj(sel(st, "item_id", base.t), "idval"), st)]
    if base.kind == "item" and attr == "items" and "__pallet_items" in st.f:
        pp = getattr(ex.ctx.con, "pallet_param", None)
        if pp and pp in ex.ctx.args:
            ex.ctx.oblige("pallet-content-read-from-the-pallet-being-unpacked@L%d" % lineno, st,
                          [base.t == ex.ctx.args[pp].t], "call-pre", lineno, ("C16",))
        return [(FieldRef("__pallet_items"), st)]
    return [(st.heap_get(base, attr), st)]


def set_obj_attr(lib, ex, base, attr, v, st, lineno):
    if base.kind == "nodeobj":
        st.heap_set(base, _nodeattr(st, attr), V.as_num(v))
        return [Outcome("next", st)]
    if base.kind == "item" and attr in ("length",):
        st.heap_set(base, attr, V.as_num(v) if not isinstance(v, VDyn) else Num(v.num))
        return [Outcome("next", st)]
    if base.kind == "proc" and attr == "item_to_put":
        st.heap_set(base, attr, v.val if isinstance(v, VOpt) else v)
        return [Outcome("next", st)]
    return None


def has_attr(lib, ex, v, name, st):
    if isinstance(v, VObj) and v.kind == "nodeobj":
        return VBool(z3.Bool("has_%s!%s" % (name, _n())))
    if isinstance(v, VObj) and v.kind == "item" and name in ("conveyor_entry_time",):
        return VBool(z3.Bool("has_%s!%s" % (name, _n())))
    if isinstance(v, VOpt) and isinstance(v.val, VObj):
        return has_attr(lib, ex, v.val, name, st)
    return None


def get_attr_other(lib, ex, base, attr, st, lineno):
    return None


def call_other(lib, ex, base, name, args, kw, st, node):
    return None


def call_env(lib, ex, name, args, kw, st, node):
    if name == "timeout":
        d = args[0]
        if isinstance(d, VDyn):
            ex.ctx.oblige("call.timeout.delay-is-a-number@L%d" % node.lineno, st, [d.is_num()], "call-pre", node.lineno, ("C20",))
            d = Num(d.num)
        d = V.as_num(d)
        ex.ctx.oblige("call.timeout.delay-nonneg@L%d" % node.lineno, st, [d.t >= 0], "call-pre", node.lineno, ("C20",))
        tv = VTimeout(d)
        tv.segment = len(st.ghost.get("waits", []))      # the clock of a timeout starts when it is created
        tv.epoch_at_creation = st.ghost.get("seg_id", 0)
        return [(tv, st)]
    if name == "any_of":
        lst = ex.deref(args[0], st)
        if isinstance(lst, VPyList):
            return [(VAnyOf(lst.items), st)]
        if isinstance(lst, SList):
            return [(VAnyOf(lst), st)]
        raise Unsupported("any_of over %r (line %d)" % (lst, node.lineno))
    if name == "process":
        g = args[0]
        if not isinstance(g, VGen):
            raise Unsupported("env.process of %r" % (g,))
        s = st.fork()
        p = s.fresh_obj("proc")
        s.ghost.setdefault("spawned", []).append((g.name, g.args, p.t))
        v = VObj(p.t, "proc")
        v.gen = g
        return [(v, s)]
    raise Unsupported("env.%s() (line %d)" % (name, node.lineno))


def listcomp(lib, ex, node, st):
    """[edge.reserve_put() for edge in self.out_edges] / [edge.inbuiltstore.reserve_get() for edge in self.in_edges]:
    one fresh token per edge (a token family)"""
    if len(node.generators) != 1 or node.generators[0].ifs:
        return None
    g = node.generators[0]
    elt = node.elt
    if not (isinstance(elt, ast.Call) and isinstance(elt.func, ast.Attribute) and elt.func.attr in ("reserve_put", "reserve_get")
            and isinstance(g.target, ast.Name)):
        return None
    via_store = False
    recv = elt.func.value
    if isinstance(recv, ast.Attribute) and recv.attr == "inbuiltstore" and isinstance(recv.value, ast.Name) \
            and recv.value.id == g.target.id:
        via_store = True
    elif not (isinstance(recv, ast.Name) and recv.id == g.target.id):
        return None
    kind = PUT if elt.func.attr == "reserve_put" else GET
    outs = []
    for it, s in ex.eval(g.iter, st):
        if isinstance(it, Exc):
            outs.append((it, s))
            continue
        lst = ex.deref(it, s)
        if isinstance(lst, VOpt):
            exs, ok = ex.raise_if(s, lst.isnone, "TypeError", node.lineno, "iteration over None")
            outs.extend(exs)
            if ok is None:
                continue
            s, lst = ok, lst.val
        if not isinstance(lst, SList):
            raise Unsupported("comprehension over %r" % (lst,))
        s = s.fork()
        if via_store:
            # edge.inbuiltstore exists only on Buffer and Fleet edges
            bad = Exists(1, lambda i: z3.And(0 <= i, i < lst.len, z3.Not(z3.Or(
                sel(s, "edge_cls", lst.at(i).t) == sc("Buffer"), sel(s, "edge_cls", lst.at(i).t) == sc("Fleet")))), [lst.len], "conv")
            ex.ctx.oblige("no-AttributeError.inbuiltstore@L%d" % node.lineno, s,
                          [Forall(1, lambda i: z3.Implies(z3.And(0 <= i, i < lst.len), z3.Or(
                              sel(s, "edge_cls", lst.at(i).t) == sc("Buffer"), sel(s, "edge_cls", lst.at(i).t) == sc("Fleet"))),
                              [lst.len], "has-store")], "noexc", node.lineno, ("C20",))
        base = s.next_id
        n = lst.len
        s.next_id = s.next_id + n
        tag = "fam%s" % _n()
        # family: token i has identity base+i ; its attributes are given by quantified facts
        fam = SList(n, lambda i: VObj(base + i, "event"), ("obj", "event"))
        for attr in ("tok_consumed", "tok_kind", "requesting_process", "resourcename", "triggered"):
            s.heap_arr(attr)
            old = s.h[attr]
            s.havoc_heap(attr, tag)
            new = s.h[attr]
            # frame: identities below base keep their attributes
            s.assume(Forall(1, (lambda old, new: lambda t: z3.Implies(z3.Or(t < base, t >= base + n),
                                                                      z3.Select(new, t) == z3.Select(old, t)))(old, new),
                            [base], "frame." + attr))
        s.assume(Forall(1, lambda i: z3.Implies(z3.And(0 <= i, i < n), z3.And(
            z3.Not(sel(s, "tok_consumed", base + i)), sel(s, "tok_kind", base + i) == kind,
            sel(s, "requesting_process", base + i) == s.active,
            sel(s, "resourcename", base + i) == store_of_edge(s, lst.at(i).t))), [n], "family"))
        s.ghost.setdefault("tokens", []).append(("fam", fam, kind, lst, node.lineno, base))
        s.ghost["epoch"] = s.ghost.get("epoch", 0) + 1
        outs.append((fam, s))
    return outs


# ---------------------------------------------------------------------------
# yields


class Yields:
    def __init__(self, lib, cls, con, old, args):
        self.lib, self.cls, self.con, self.old, self.args = lib, cls, con, old, args

    def on_yield(self, ex, ordinal, ynode, value, st):
        lib = self.lib
        ctx = ex.ctx
        lineno = ynode.lineno
        hook = getattr(self.con, "at_yield", None)
        if hook:
            hook(ex, ordinal, ynode, value, st)
        # guarantee side of the rely between the node's processes: whenever this process gives up control the
        # shared accounting state satisfies the clauses the other processes assume when they resume
        gua = getattr(self.con, "guarantee", None)
        if gua:
            for nm, cl in gua(st):
                ctx.oblige("yield%d.guarantee.%s" % (ordinal, nm), st, [cl], "yield-inv", lineno, ("C17",))
        if isinstance(value, VOpaque) and value.tag == "any_of":
            # an any_of condition that has already been processed: the generator continues at once (K-event:
            # yielding a processed event does not give control back to the kernel)
            return [(NONE, st)]
        s = st.fork()
        tag = "y%d_%s" % (ordinal, _n())
        waited = None
        result = NONE
        # ---- what the process waits for
        if isinstance(value, VTimeout):
            # a delay must be awaited in the atomic segment that created the timeout, otherwise part of it elapses
            # while the process is busy or waiting for something else (C08, C11)
            ctx.oblige("yield%d.timeout-awaited-as-soon-as-created@L%d" % (ordinal, lineno), st,
                       [z3.BoolVal(getattr(value, "epoch_at_creation", None) == st.ghost.get("seg_id", 0))], "yield", lineno,
                       ("C08",))
            s.now = st.now + value.delay.t
            waited = value.delay.t > 0
        elif isinstance(value, VObj) and value.kind == "event":
            waited = z3.Not(sel(st, "triggered", value.t))
        elif isinstance(value, VAnyOf):
            waited = None
        elif isinstance(value, VObj) and value.kind == "request":
            waited = None
        elif isinstance(value, VObj) and value.kind == "release":
            waited = z3.BoolVal(False)
        elif isinstance(value, VObj) and value.kind == "proc" and getattr(value, "gen", None) is not None:
            return self.run_subprocess(ex, ordinal, ynode, value, st)
        else:
            raise Unsupported("yield of %r (line %d)" % (value, lineno))
        # ---- rely: time does not decrease, our tokens stay ours, triggered stays triggered
        if not isinstance(value, VTimeout):
            now2 = z3.Real(tag + ".now")
            s.assume(now2 >= st.now)
            s.now = now2
        s.heap_arr("triggered")
        oldtr = s.h["triggered"]
        s.havoc_heap("triggered", tag)
        newtr = s.h["triggered"]
        s.assume(Forall(1, lambda t: z3.Implies(z3.Select(oldtr, t), z3.Select(newtr, t)), [st.next_id], "rely.granted-stays-granted"))
        for grp in s.ghost.get("tokens", []):
            if grp[0] == "one":
                s.assume(z3.Implies(z3.Select(oldtr, grp[1]), z3.Select(newtr, grp[1])))
        nid = z3.Int(tag + ".next_id")
        s.assume(nid >= s.next_id)
        s.next_id = nid
        s.ghost["epoch"] = s.ghost.get("epoch", 0) + 1
        s.ghost.pop("can_fact", None)
        # node fields shared with the node's other processes (K-release: a process resuming from
        # `yield resource.release()` runs before the process whose request the release grants)
        for fname in (getattr(self.con, "shared_fields", ()) if not (isinstance(value, VObj) and value.kind == "release") else ()):
            if fname in s.f:
                from pyvc.contract import _fresh_like
                s.f[fname] = _fresh_like(s.f[fname], "%s.%s" % (tag, fname))
        # ---- resumption guarantee
        if isinstance(value, VObj) and value.kind == "event":
            s.assume(z3.Select(newtr, value.t))
        elif isinstance(value, VAnyOf):
            mem = value.members
            if isinstance(mem, SList):
                # K-any_of: fires as soon as a member is triggered; at once for an empty list
                wit = logic.fresh_idx("anyof")
                s.assume(z3.Implies(mem.len >= 1, z3.And(0 <= wit, wit < mem.len, z3.Select(newtr, mem.at(wit).t))))
            else:
                ts = [m for m in mem if isinstance(m, VObj)]
                s.assume(z3.Or(*[z3.Select(newtr, m.t) for m in ts]))
        elif isinstance(value, VObj) and value.kind == "request":
            res = self.lib_resource(st)
            if res is not None:
                s.heap_set(VObj(res, "resource"), "res_users", Num(sel(st, "res_users", res) + 1))
                s.assume(sel(st, "res_users", res) + 1 <= sel(st, "res_capacity", res))
            s.ghost.setdefault("slots", []).append(value.t)
        elif isinstance(value, VObj) and value.kind == "release":
            res = self.lib_resource(st)
            held = list(s.ghost.get("slots", []))
            so = getattr(self.con, "slot_of", None)
            if so and so in self.args:
                held.append(self.args[so].t)
            ctx.oblige("yield%d.release-of-a-held-slot@L%d" % (ordinal, lineno), st,
                       [z3.Or(*[h == value.t for h in held]) if held else z3.BoolVal(False)], "yield", lineno, ("C08",))
            unit = getattr(self.con, "unit_param", None)
            if unit and unit in self.args and "stats.num_item_discarded" in st.f:
                # C08 (never more than work_capacity units inside): the worker gives its slot back only after its unit of
                # work has left the node -- pushed, or dropped and counted
                it = self.args[unit].t
                ddis = st.f["stats.num_item_discarded"].t - self.old.f["stats.num_item_discarded"].t
                ctx.oblige("slot-released-only-after-the-unit-has-left@L%d" % lineno, st,
                           [put_count(st, it) + ddis == 1], "yield", lineno, ("C08",))
            if res is not None:
                s.heap_set(VObj(res, "resource"), "res_users", Num(sel(st, "res_users", res) - 1))
            s.ghost["slots"] = [h for h in held if not h.eq(value.t)]
            s.ghost["released"] = True
        s.ghost.setdefault("waits", []).append((lineno, waited, type(value).__name__))
        s.ghost["seg_id"] = s.ghost.get("seg_id", 0) + 1
        s.ghost["last_resume"] = dict(s.f)
        s.ghost["last_resume_thread_state"] = s.heap_arr("thread_state")
        rel = getattr(self.con, "rely", None)
        if rel:
            for nm, cl in rel(st, s):
                s.assume(cl)
        return [(result, s)]

    def lib_resource(self, st):
        wt = st.f.get("worker_thread")
        return wt.t if isinstance(wt, VObj) else None

    def run_subprocess(self, ex, ordinal, ynode, value, st):
        """yield env.process(self._push_item(item, edge)): the sub-process runs to completion under its own contract"""
        g = value.gen
        con = self.lib.contracts[self.cls].get(g.name)
        if con is None:
            raise Unsupported("sub-process %s has no contract" % g.name)
        outs = []
        gargs = dict(g.args)
        for a, b in getattr(con, "argmap", {}).items():
            gargs[b] = gargs[a]
        for v, s in apply_contract(ex, con, gargs, st, ynode.lineno, self.lib, self.cls):
            if isinstance(v, Exc):
                outs.append((v, s))
            else:
                tag = "sub%s" % _n()
                now2 = z3.Real(tag + ".now")
                s.assume(now2 >= st.now)
                s.now = now2
                s.ghost["epoch"] = s.ghost.get("epoch", 0) + 1
                outs.append((NONE, s))
        return outs


# ---------------------------------------------------------------------------
# linearity obligations


def tokens_consumed_clauses(st, since=0):
    out = []
    for k, grp in enumerate(st.ghost.get("tokens", [])[since:]):
        if grp[0] == "one":
            out.append(("token@L%d-used-or-cancelled" % grp[4], sel(st, "tok_consumed", grp[1])))
        else:
            fam, base = grp[1], grp[5]
            out.append(("tokens@L%d-all-used-or-cancelled" % grp[4],
                        Forall(1, lambda i, fam=fam: z3.Implies(z3.And(0 <= i, i < fam.len), sel(st, "tok_consumed", fam.at(i).t)),
                               [fam.len], "linear")))
    return out


def put_count(st, item):
    ps = st.ghost.get("puts", [])
    return z3.Sum([z3.If(p[0] == item, 1, 0) for p in ps]) if ps else z3.IntVal(0)


def install(lib):
    from contracts import nodes_sink, nodes_machine, nodes_source, nodes_split_comb
    nodes_sink.install(lib)
    nodes_source.install(lib)
    nodes_machine.install(lib)
    nodes_split_comb.install(lib)


def chi(lib, cls, name, old, args):
    if name == "always":
        return None
    if name == "before-set-up-is-over":
        return old.f["stats.last_state_change_time"].isnone
    raise KeyError(name)
