"""contracts.frame -- the frame obligation (purely syntactic, re-run on every check).

The class invariants of the stores are system invariants only if no code outside a store class mutates the store's
lists.  This scan walks the AST of every file of the package and refutes the obligation of a file that
  * assigns / deletes / augments   <expr>.<store list attribute>      where <expr> is not `self` inside a store class, or
  * calls a mutating list method   <expr>.<store list attribute>.append/pop/insert/remove/sort/clear/extend/reverse
    through a receiver that is not `self` inside a store class
(`pallet.items` / `self.items` of the Pallet helper are a different class and are exempt).  It also checks that the dead
duplicates FleetStore.reserve_get_cancel1 / _do_get1 and the never-started Buffer.behaviour / Fleet.behaviour are not called."""
import ast
import os
from pyvc import extract
from pyvc.lib_base import LibBase

LISTS = {"reserve_put_queue", "reservations_put", "reserve_get_queue", "reservations_get", "reserved_events",
         "reserved_items", "ready_items", "items"}
MUT = {"append", "pop", "insert", "remove", "sort", "clear", "extend", "reverse", "__setitem__", "__delitem__"}
STORE_FILES = {"base/reservable_priority_req_store.py", "base/reservable_req_store.py",
               "base/reservable_priority_req_filter_store.py", "base/buffer_store.py", "base/fleet_store.py",
               "base/slotted_belt_store.py", "base/belt_store.py"}
DEAD = {"reserve_get_cancel1", "_do_get1", "_pull_item"}


def chain(n):
    out = []
    while isinstance(n, ast.Attribute):
        out.append(n.attr)
        n = n.value
    if isinstance(n, ast.Name):
        out.append(n.id)
    else:
        out.append("<expr>")
    return list(reversed(out))


def scan(rel):
    ex = extract.load(rel)
    bad = []
    in_store = rel in STORE_FILES
    pallet_file = rel.endswith("helper/pallet.py")

    def is_store_list(attrnode):
        """attrnode: ast.Attribute naming a store list; returns True when it denotes a list of a *store* object reached
        from outside that store"""
        ch = chain(attrnode)
        if ch[-1] not in LISTS:
            return False
        recv = ch[:-1]
        if recv == ["self"]:
            return not (in_store or pallet_file) and ch[-1] != "items" and False
        if ch[-1] == "items":
            # X.items of a store is reached through .inbuiltstore / .belt ; pallet.items is the Pallet helper
            return any(a in ("inbuiltstore", "belt") for a in recv)
        return True
    for node in ast.walk(ex.tree):
        if isinstance(node, (ast.Assign, ast.AugAssign, ast.AnnAssign, ast.Delete)):
            tgts = node.targets if isinstance(node, (ast.Assign, ast.Delete)) else [node.target]
            for t in tgts:
                base = t.value if isinstance(t, ast.Subscript) else t
                if isinstance(base, ast.Attribute) and is_store_list(base):
                    bad.append((node.lineno, "write to " + ".".join(chain(base))))
        if isinstance(node, ast.Call) and isinstance(node.func, ast.Attribute) and node.func.attr in MUT:
            recv = node.func.value
            if isinstance(recv, ast.Attribute) and is_store_list(recv):
                bad.append((node.lineno, "%s() on %s" % (node.func.attr, ".".join(chain(recv)))))
        if isinstance(node, ast.Call) and isinstance(node.func, ast.Attribute) and node.func.attr in DEAD:
            bad.append((node.lineno, "call of the unverified duplicate %s" % node.func.attr))
        if isinstance(node, ast.Call) and isinstance(node.func, ast.Attribute) and node.func.attr == "process" and node.args:
            a = node.args[0]
            if isinstance(a, ast.Call) and isinstance(a.func, ast.Attribute) and a.func.attr == "behaviour" \
                    and rel in ("edges/buffer.py", "edges/fleet.py"):
                bad.append((node.lineno, "Buffer/Fleet.behaviour (a `while True` without yield) is started"))
    return ex, bad


class FrameLib(LibBase):
    def __init__(self):
        super().__init__()
        self.contracts = {"package": {rel: None for rel in extract.all_files()}}

    def classes(self):
        return ["package"]

    def unit_props(self, cls, fn):
        return {"C01", "C02", "C04", "C05", "C06", "C07", "C18"}

    def shards(self, cls, fn):
        return 1


def run_frame_unit(rel):
    ex, bad = scan(rel)
    return {"unit": "frame:%s" % rel, "lib": "frame", "cls": "package", "fn": rel, "file": rel, "sha": ex.sha,
            "lineno": 0, "paths": 0, "cover": "sat", "unsupported": None, "seconds": 0.0,
            "obligations": [{"name": "no-outside-mutation-of-store-lists", "kind": "frame",
                             "status": "proved" if not bad else "refuted", "seconds": 0.0, "lineno": bad[0][0] if bad else 0,
                             "props": ["C01", "C02", "C04", "C05", "C06", "C07", "C18"], "trace": [],
                             "reason": "; ".join("L%d %s" % b for b in bad[:6]), "ninst": 0,
                             "model": {"offending": ["L%d %s" % b for b in bad]} if bad else None}]}


def make_lib():
    return FrameLib()
