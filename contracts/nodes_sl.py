"""contracts.nodes_sl -- contracts for the straight-line functions of the node classes (C08 get_delay, C15 index
selection, C17 state-time accounting, C20 rejection of invalid configurations)."""
import ast
import z3
from pyvc import values as V
from pyvc import logic
from pyvc.logic import Forall, Exists
from pyvc.contract import FnContract, Def, DefHeap, DefRes, Clause, ExcCase, Structural, apply_contract
from pyvc.execute import Exc, Outcome, FieldRef, SelfRef, EnvRef, VGen
from pyvc.values import Num, VObj, VBool, VStr, VOpaque, VNone, NONE, SList, Unsupported, VDyn, VOpt, VTuple

TT = "stats.total_time_spent_in_states."
GROUP_A = ["IDLE_STATE", "ATLEAST_ONE_PROCESSING_STATE", "ALL_ACTIVE_BLOCKED_STATE"]
GROUP_B = ["IDLE_STATE", "ALL_ACTIVE_PROCESSING_STATE", "ATLEAST_ONE_BLOCKED_STATE"]
MIRROR = {"IDLE_STATE": "total_time_idle", "ATLEAST_ONE_PROCESSING_STATE": "total_time_atleast_one_processing",
          "ALL_ACTIVE_BLOCKED_STATE": "total_time_all_blocked", "ALL_ACTIVE_PROCESSING_STATE": "total_time_all_processing",
          "ATLEAST_ONE_BLOCKED_STATE": "total_time_atleast_one_blocked"}


def _n():
    return logic.fresh("n").decl().name().split("!")[1]


def sc(s):
    return V.str_const(s)


def _recounted(c, act):
    """whenever the accounting is active the stored state_rep is the result of a _count_worker_state() made in this
    very call (a skipped recount leaves a stale tuple and the next interval is charged to the wrong states)"""
    new = [r for r in c.new.ghost.get("call_results", [])[len(c.old.ghost.get("call_results", [])):] if r[0] == "_count_worker_state"]
    if not new:
        return z3.Not(act)
    res = new[-1][1]
    rep = c.new.f["state_rep"]
    return z3.Implies(act, z3.And(z3.Not(rep.isnone), rep.val.items[0].t == res.items[0].t, rep.val.items[1].t == res.items[1].t))


def _ts(st, pid):
    """thread_state attribute of process pid (string code)"""
    return z3.Select(st.heap_arr("thread_state"), pid)


# ---------------------------------------------------------------------------
# counting: sum(<bool expr> for x in list)  (A-count: 0 <= count <= len; counts of disjoint predicates add up to <= len)
_CNT = {}


def reduce_genexp(lib, ex, name, node, st):
    ge = node.args[0]
    if name in ("any", "all") and len(ge.generators) == 1 and isinstance(ge.generators[0].target, ast.Name):
        return any_all(lib, ex, name, ge, node, st)
    if name == "sum" and len(ge.generators) == 1 and ge.generators[0].ifs and isinstance(ge.elt, ast.Constant) \
            and ge.elt.value == 1 and isinstance(ge.generators[0].target, ast.Name):
        return count_if(lib, ex, ge, node, st)
    if name != "sum" or len(ge.generators) != 1 or ge.generators[0].ifs:
        raise Unsupported("%s(genexp) at line %d" % (name, node.lineno))
    g = ge.generators[0]
    outs = []
    for it, s in ex.eval(g.iter, st):
        if isinstance(it, Exc):
            outs.append((it, s))
            continue
        lst = ex.deref(it, s)
        if not isinstance(lst, SList):
            raise Unsupported("sum over %r" % (lst,))
        # the summand must be a boolean test of the element: the result is a count
        key = ast.dump(ge.elt)
        c = z3.Int("count!%s" % _n())
        s2 = s.fork()
        s2.assume(z3.And(c >= 0, c <= lst.len))
        # cardinality facts for very short lists (exact): no element, one element
        s2.assume(z3.Implies(lst.len == 0, c == 0))
        if isinstance(g.target, ast.Name):
            try:
                s3 = s2.fork()
                s3.loc[g.target.id] = lst.at(z3.IntVal(0))
                t0 = V.truth(ex.eval_pure(ge.elt, s3, node.lineno))
                s2.assume(z3.Implies(lst.len == 1, c == z3.If(t0, 1, 0)))
            except Unsupported:
                pass
        prev = s2.ghost.setdefault("counts", [])
        # two different comparisons of the same attribute with different constants are disjoint predicates
        for (k0, c0, lenterm) in prev:
            if k0 != key and lenterm.eq(lst.len):
                s2.assume(c + c0 <= lst.len)
                if getattr(ex.ctx.con, "count_partition", False):
                    # A-count: every listed worker is PROCESSING or BLOCKED (precondition), so the two counts add up
                    s2.assume(c + c0 == lst.len)
        prev.append((key, c, lst.len))
        outs.append((Num(c), s2))
    return outs


def any_all(lib, ex, name, ge, node, st):
    """any(<test> for x in L [if c])  /  all(...): decided by forking (a witness position, or a universal fact)"""
    from pyvc.execute import feasible
    g = ge.generators[0]
    var = g.target.id
    outs = []
    for it, s in ex.eval(g.iter, st):
        if isinstance(it, Exc):
            outs.append((it, s))
            continue
        lst = ex.deref(it, s)
        if isinstance(lst, VOpt):
            lst = lst.val
        if not isinstance(lst, SList):
            raise Unsupported("%s over %r" % (name, lst))

        def test_at(i, s=s, lst=lst):
            s2 = s.fork()
            s2.loc[var] = lst.at(i)
            conds = [V.truth(ex.eval_pure(c, s2, node.lineno)) for c in g.ifs]
            t = V.truth(ex.eval_pure(ge.elt, s2, node.lineno))
            if name == "any":
                return z3.And(*(conds + [t]))
            return z3.And(*(conds + [z3.Not(t)]))      # a counterexample to all()
        p = logic.fresh_idx("wit")
        s1 = s.fork()
        s1.assume(z3.And(0 <= p, p < lst.len, test_at(p)))
        if feasible(s1, ex.ctx):
            outs.append((VBool(name == "any"), s1))
        s2 = s.fork()
        s2.assume(Forall(1, lambda j: z3.Implies(z3.And(0 <= j, j < lst.len), z3.Not(test_at(j))), [lst.len], "none"))
        if feasible(s2, ex.ctx):
            outs.append((VBool(name != "any"), s2))
    return outs


def count_if(lib, ex, ge, node, st):
    """sum(1 for x in L if cond(x)): a count c with 0 <= c <= len(L), c == 0 iff no element satisfies cond"""
    g = ge.generators[0]
    var = g.target.id
    outs = []
    for it, s in ex.eval(g.iter, st):
        if isinstance(it, Exc):
            outs.append((it, s))
            continue
        lst = ex.deref(it, s)
        if not isinstance(lst, SList):
            raise Unsupported("count over %r" % (lst,))

        def cond_at(i, s=s, lst=lst):
            s2 = s.fork()
            s2.loc[var] = lst.at(i)
            return logic.conj([V.truth(ex.eval_pure(c, s2, node.lineno)) for c in g.ifs])
        c = z3.Int("count!%s" % _n())
        k = logic.fresh_idx("witness")
        s2 = s.fork()
        s2.assume(z3.And(c >= 0, c <= lst.len))
        s2.assume(Forall(1, lambda i: z3.Implies(z3.And(c == 0, 0 <= i, i < lst.len), z3.Not(cond_at(i))), [lst.len], "count0"))
        s2.assume(z3.Implies(c > 0, z3.And(0 <= k, k < lst.len, cond_at(k))))
        outs.append((Num(c), s2))
    return outs


def builtin(lib, ex, name, args, kw, st, node):
    if name in ("Item", "Pallet"):
        s = st.fork()
        x = s.fresh_obj("item")
        s.heap_set(x, "flow_item_type", VStr("item" if name == "Item" else "Pallet"))
        for a in ("timestamp_creation", "timestamp_node_entry", "timestamp_node_exit"):
            s.heap_set(x, a, NONE)
        s.ghost.setdefault("created", []).append(x.t)
        return [(x, s)]
    if name == "get_edge_selector":
        # utils.get_edge_selector(name, node, env, "IN"/"OUT") by contract: a generator for the two known names
        d = args[0]
        code = d.s if isinstance(d, VDyn) else d.t
        outs, ok = ex.raise_if(st, z3.Not(z3.Or(code == sc("ROUND_ROBIN"), code == sc("RANDOM"))), "ValueError", node.lineno,
                               "unknown selection type")
        if ok is not None:
            g = ok.fresh_obj("generator")
            ok.heap_set(g, "selector_kind", VStr(code))
            outs.append((VDyn(tag=z3.IntVal(V.T_GEN), num=z3.RealVal(0), s=z3.IntVal(0), oid=g.t), ok))
        return outs
    if name == "getattr" and len(node.args) == 2 and isinstance(node.args[1], ast.JoinedStr):
        # getattr(node, f"{edge_type}_edges") in utils.py
        parts = node.args[1].values
        if len(parts) == 2 and isinstance(parts[1], ast.Constant) and parts[1].value == "_edges":
            s = st.fork()
            return [(lib.edges_of(ex, s, args[0]), s)]
        raise Unsupported("getattr with a computed name (line %d)" % node.lineno)
    if name == "range":
        if len(args) == 1:
            n = V.as_num(args[0]).t
            return [(SList(z3.If(n < 0, 0, n), lambda i: Num(i), ("num", "int")), st)]
        if len(args) == 2:
            a, b = V.as_num(args[0]).t, V.as_num(args[1]).t
            return [(SList(z3.If(b - a < 0, 0, b - a), lambda i: Num(a + i), ("num", "int")), st)]
        raise Unsupported("range with step")
    if name in ("int", "float") and len(args) == 1 and isinstance(args[0], Num):
        return [(args[0], st)] if name == "float" or args[0].is_int else None
    return None


def call_opaque(lib, ex, base, name, args, kw, st, node):
    if base.tag == "module:simpy" and name == "Resource":
        # K-Resource: simpy.Resource(env, capacity=n) has n slots and no users
        s = st.fork()
        r = s.fresh_obj("resource")
        cap = kw.get("capacity", args[1] if len(args) > 1 else Num(1))
        s.heap_set(r, "res_capacity", V.as_num(cap))
        s.heap_set(r, "res_users", Num(0))
        return [(r, s)]
    if base.tag == "module:random" and name == "randint":
        a, b = V.as_num(args[0]).t, V.as_num(args[1]).t
        outs, ok = ex.raise_if(st, a > b, "ValueError", node.lineno, "randint: empty range")
        if ok is not None:
            r = z3.Int("rand!%s" % _n())
            ok.assume(z3.And(a <= r, r <= b))
            outs.append((Num(r), ok))
        return outs
    if base.tag == "callbacks":
        return None
    return None


# ---------------------------------------------------------------------------
def invariant(lib, cls, st, side):
    """class invariants of the node classes (accounting only; process-level facts live in nodes_proc)"""
    out = []
    f = st.f
    if cls == "Machine":
        rep = f["state_rep"]
        last = f["stats.last_state_change_time"]
        p, b = rep.val.items[0].t, rep.val.items[1].t
        running = z3.And(z3.Not(rep.isnone), p >= 0, b >= 0)
        out.append(("I-acc.state-rep-domain", z3.Or(rep.isnone, z3.And(p == -1, b == -1), z3.And(p >= 0, b >= 0)), ("C17",)))
        out.append(("I-acc.clock-started-once-set-up-is-over", z3.Implies(running, z3.Not(last.isnone)), ("C17",)))
        out.append(("I-acc.no-state-change-recorded-during-setup",
                    z3.Implies(z3.And(z3.Not(rep.isnone), p == -1), last.isnone), ("C17",)))
        sa = f[TT + "SETUP_STATE"].t + sum(f[TT + k].t for k in GROUP_A)
        sb = f[TT + "SETUP_STATE"].t + sum(f[TT + k].t for k in GROUP_B)
        out.append(("I-acc.groupA-sums-to-last-change", z3.Implies(z3.And(running, z3.Not(last.isnone)), sa == last.val.t), ("C17",)))
        out.append(("I-acc.groupB-sums-to-last-change", z3.Implies(z3.And(running, z3.Not(last.isnone)), sb == last.val.t), ("C17",)))
        for k in ["SETUP_STATE"] + GROUP_A + GROUP_B[1:]:
            out.append(("I-acc.nonneg." + k, f[TT + k].t >= 0, ("C17",)))
        out.append(("I-acc.last-change-in-the-past", z3.Implies(z3.Not(last.isnone), last.val.t <= st.now), ("C17",)))
        out.append(("I-occ.num-workers-range", z3.And(0 <= f["num_workers"].t, f["num_workers"].t <= f["work_capacity"].t), ("C17", "C08")))
        out.append(("I-occ.histogram-length", f["time_per_work_occupancy"].len == f["work_capacity"].t + 1, ("C17",)))
        out.append(("I-occ.last-change-in-the-past", f["time_last_occupancy_change"].t <= st.now, ("C17",)))
    return out


# ---------------------------------------------------------------------------
def install(lib):
    C = lib.contracts

    # ---- Node.__init__
    def edges_recorded(nm):
        def none_same(c):
            a = c.args[nm]
            return c.new.f[nm].isnone == (z3.BoolVal(True) if isinstance(a, V.VNone) else a.isnone)

        def elems_same(k):
            def cl(c):
                a = c.args[nm]
                if isinstance(a, V.VNone):
                    return z3.BoolVal(True)
                n = c.new.f[nm].val
                if k == 0:
                    return z3.Implies(z3.Not(a.isnone), n.len == a.val.len)
                return logic.Forall(1, lambda i: z3.Implies(z3.And(z3.Not(a.isnone), 0 <= i, i < a.val.len),
                                                            V.eq(n.at(i), a.val.at(i))), [a.val.len], nm + "-same")
            return cl
        return [Clause(nm + "-recorded-as-given.none", none_same, ("C20",)),
                Clause(nm + "-recorded-as-given.len", elems_same(0), ("C20",)),
                Clause(nm + "-recorded-as-given", elems_same(1), ("C20",))]
    def node_init_ok(c):
        return z3.And(c.args["id"].tag == V.T_STR, c.args["node_setup_time"].is_num())
    C["Node"]["__init__"] = FnContract(
        "__init__", [("env", ("env",), None), ("id", ("dyn",), None), ("in_edges", ("opt", ("list", ("obj", "edge"))), NONE),
                     ("out_edges", ("opt", ("list", ("obj", "edge"))), NONE), ("node_setup_time", ("dyn",), V.dyn_of(Num(0)))],
        excs=[ExcCase("TypeError", lambda c: c.args["id"].tag != V.T_STR, "id-not-a-string", unchanged=False, props=("C20",)),
              ExcCase("ValueError", lambda c: z3.And(c.args["id"].tag == V.T_STR, z3.Not(c.args["node_setup_time"].is_num())),
                      "setup-time-not-a-number", unchanged=False, props=("C20",))],
        normal_requires=node_init_ok,
        post=lambda c: [Clause("setup-time-recorded", lambda c: V.eq(V.dyn_of(c.new.f["node_setup_time"]),
                                                                  c.args["node_setup_time"]), ("C20",))] + [
            x for nm in ("in_edges", "out_edges") for x in edges_recorded(nm)],
        modifies=("id", "node_setup_time", "in_edges", "out_edges"),
        uses_inv=False, keeps_inv=False, is_init=True, props=("C20",))
    C["Node"]["__init__"].no_frame = True

    # ---- Node.get_delay  (same shape as Edge.get_delay)
    def gd_val(c):
        d = c.args["delay"]
        if c.side == "callee":
            cs = c.new.ghost.get("consults", [])
            cs0 = c.old.ghost.get("consults", [])
            return V.ite(cs[-1][3], cs[-1][2], d) if len(cs) > len(cs0) else d
        if "val" not in c._ghosts:
            c._ghosts["val"] = VDyn("gd!%s" % _n())
            c.new.assume(c._ghosts["val"].well_formed())
        return c._ghosts["val"]

    def drawn_of(d):
        return z3.Or(d.tag == V.T_GEN, d.tag == V.T_FUNC)

    def gd_record(c):
        d = c.args["delay"]
        val = gd_val(c)
        return Structural("source-consulted-exactly-once", lambda c: consults_ok(c, d), ("C08",),
                          caller_effect=lambda c: c.new.ghost.setdefault("consults", []).append(
                              ("contract", d.oid, val, drawn_of(d), len(c.new.ghost.get("gets", [])))))

    def gd_const(c):
        d = c.args["delay"]
        val = gd_val(c)
        return Clause("constant-is-returned-as-is", lambda c: z3.Implies(z3.Not(drawn_of(d)), V.same_dyn(val, d)), ("C08",))

    def gd_post(c):
        val = gd_val(c)
        return [gd_const(c),
                Clause("result-is-the-drawn-value", lambda c: V.same_dyn(c.res, val), ("C08",)),
                Clause("result-nonnegative-number", lambda c: z3.And(val.is_num(), val.num >= 0), ("C20", "C08")),
                gd_record(c)]
    C["Node"]["get_delay"] = FnContract(
        "get_delay", [("delay", ("dyn",), None)], post=gd_post,
        excs=[ExcCase("AssertionError", lambda c: z3.And(gd_val(c).is_num(), gd_val(c).num < 0), "negative-delay",
                      unchanged=True, props=("C20",), clauses=lambda c: [gd_record(c), gd_const(c)]),
              ExcCase("TypeError", lambda c: z3.Not(gd_val(c).is_num()), "delay-not-a-number", unchanged=True,
                      props=("C20",), clauses=lambda c: [gd_record(c), gd_const(c)])],
        normal_requires=lambda c: z3.And(gd_val(c).is_num(), gd_val(c).num >= 0),
        uses_inv=False, keeps_inv=False, result_kind=("dyn",), props=("C08", "C20"))

    # ---- Machine._count_worker_state
    def cws_post(c):
        cap = c.old.f["work_capacity"].t
        return [Clause("counts-in-range", lambda c: z3.And(c.res.items[0].t >= 0, c.res.items[1].t >= 0,
                                                           c.res.items[0].t + c.res.items[1].t <= cap), ("C17", "C08")),
                Clause("counts-add-up-to-the-live-workers", lambda c: c.res.items[0].t + c.res.items[1].t ==
                       c.old.f["worker_thread_list"].len, ("C17",)),
                # exact for zero and one live worker (all that Splitter/Combiner, work_capacity 1, ever have)
                Clause("counts-exact-for-no-worker", lambda c: z3.Implies(
                    c.old.f["worker_thread_list"].len == 0, z3.And(c.res.items[0].t == 0, c.res.items[1].t == 0)), ("C17",)),
                Clause("counts-exact-for-one-worker", lambda c: z3.Implies(c.old.f["worker_thread_list"].len == 1, z3.And(
                    c.res.items[0].t == z3.If(_ts(c.old, c.old.f["worker_thread_list"].at(z3.IntVal(0)).t) == sc("PROCESSING_STATE"), 1, 0),
                    c.res.items[1].t == z3.If(_ts(c.old, c.old.f["worker_thread_list"].at(z3.IntVal(0)).t) == sc("BLOCKED_STATE"), 1, 0))),
                    ("C17",))]
    C["Machine"]["_count_worker_state"] = FnContract(
        "_count_worker_state", [], post=cws_post,
        excs=[ExcCase("AssertionError", lambda c: c.old.f["worker_thread_list"].len > c.old.f["work_capacity"].t,
                      "more-threads-than-capacity", unchanged=True, props=("C08",), may=True)],
        uses_inv=False, keeps_inv=False, result_kind=("tuple", [("num", "int"), ("num", "int")]), props=("C17", "C08"),
        pure=True)
    C["Machine"]["_count_worker_state"].count_partition = True

    # ---- Machine.update_state_rep(current_time)
    def usr_pre(st, args):
        last = st.f["stats.last_state_change_time"]
        return [("time-monotone", z3.Implies(z3.Not(last.isnone), args["current_time"].t >= last.val.t)),
                ("threads-within-capacity", st.f["worker_thread_list"].len <= st.f["work_capacity"].t)]

    def usr_post(c):
        o, n = c.old, c.new
        rep, last = o.f["state_rep"], o.f["stats.last_state_change_time"]
        ct = c.args["current_time"].t
        act = z3.And(z3.Not(rep.isnone), z3.Not(last.isnone))
        p, b = rep.val.items[0].t, rep.val.items[1].t
        el = ct - last.val.t
        d = {k: n.f[TT + k].t - o.f[TT + k].t for k in MIRROR}
        items = [
            Def("stats.last_state_change_time", VOpt(z3.BoolVal(False), Num(ct)), ("C17",)),
            Clause("setup-state-not-charged-here", lambda c: n.f[TT + "SETUP_STATE"].t == o.f[TT + "SETUP_STATE"].t, ("C17",)),
            # statement C17: the elapsed time goes to exactly one state of each documented group
            Clause("groupA-partition", lambda c: z3.Implies(z3.And(act, p >= 0, b >= 0),
                                                            sum(d[k] for k in GROUP_A) == el), ("C17",)),
            Clause("groupB-partition", lambda c: z3.Implies(z3.And(act, p >= 0, b >= 0),
                                                            sum(d[k] for k in GROUP_B) == el), ("C17",)),
            Clause("each-state-gets-nothing-or-the-whole-interval", lambda c: z3.And(*[
                z3.Or(d[k] == 0, z3.And(act, d[k] == el)) for k in MIRROR]), ("C17",)),
            Clause("charged-state-reflects-worker-activity", lambda c: z3.Implies(act, z3.And(
                (d["IDLE_STATE"] == el) == z3.Or(el == 0, z3.And(p == 0, b == 0)),
                z3.Implies(d["ATLEAST_ONE_PROCESSING_STATE"] != 0, p > 0),
                z3.Implies(d["ATLEAST_ONE_BLOCKED_STATE"] != 0, b > 0),
                z3.Implies(d["ALL_ACTIVE_BLOCKED_STATE"] != 0, z3.And(b > 0, p == 0)),
                z3.Implies(d["ALL_ACTIVE_PROCESSING_STATE"] != 0, z3.And(p > 0, b == 0)))), ("C17",)),
            Clause("nothing-charged-during-setup", lambda c: z3.Implies(z3.Or(z3.Not(act), z3.And(p == -1, b == -1)),
                                                                        z3.And(*[d[k] == 0 for k in MIRROR])), ("C17",)),
            Clause("mirror-fields-agree", lambda c: z3.And(*[
                n.f[MIRROR[k]].t - o.f[MIRROR[k]].t == d[k] for k in MIRROR]), ("C17",)),
            Structural("state-rep-is-the-fresh-worker-count", lambda c: _recounted(c, act), ("C17",),
                       caller_effect=lambda c: None),
            Clause("state-rep-is-recounted", lambda c: z3.Implies(act, z3.And(
                z3.Not(n.f["state_rep"].isnone), n.f["state_rep"].val.items[0].t >= 0, n.f["state_rep"].val.items[1].t >= 0)),
                ("C17",)),
            Clause("state-rep-kept-otherwise", lambda c: z3.Implies(z3.Not(act), V.eq(n.f["state_rep"], o.f["state_rep"])),
                   ("C17",)),
        ]
        return items
    C["Machine"]["update_state_rep"] = FnContract(
        "update_state_rep", [("current_time", ("num", "real"), None)], pre=usr_pre, post=usr_post,
        modifies=tuple(TT + k for k in MIRROR) + tuple(MIRROR.values()) + ("stats.last_state_change_time", "state_rep"),
        uses_inv=True, keeps_inv=False, props=("C17",))
    # the accounting invariant needs now >= current_time, which update_state_rep itself does not know:
    C["Machine"]["update_state_rep"].keeps_inv = False

    # ---- Machine._update_avg_time_spent_in_processing / blocked
    for nm, fld in (("_update_avg_time_spent_in_processing", "per_thread_total_time_in_processing_state"),
                    ("_update_avg_time_spent_in_blocked", "per_thread_total_time_in_blocked_state")):
        pname = "processing_delay" if "processing" in nm else "blocked_delay"

        def mk(fld, pname):
            def post(c):
                o = c.old
                cap = z3.ToReal(o.f["work_capacity"].t)
                return [Clause("adds-delay-over-capacity", lambda c: c.new.f[fld].t * cap == o.f[fld].t * cap + c.args[pname].t,
                               ("C17",))]
            return post
        C["Machine"][nm] = FnContract(nm, [(pname, ("num", "real"), None)], post=mk(fld, pname), modifies=(fld,),
                                      uses_inv=False, keeps_inv=False, props=("C17",))

    # ---- Machine._update_worker_occupancy(action)
    def uwo_post(c):
        o, n = c.old, c.new
        a = c.args["action"]
        k = o.f["num_workers"].t
        el = o.now - o.f["time_last_occupancy_change"].t
        H0, H1 = o.f["time_per_work_occupancy"], n.f["time_per_work_occupancy"]
        add, rem, upd = V.eq(a, VStr("ADD")), V.eq(a, VStr("REMOVE")), V.eq(a, VStr("UPDATE"))
        return [
            Clause("histogram-length-kept", lambda c: H1.len == H0.len, ("C17",)),
            # statement C17: the elapsed time is added to the entry of the occupancy that was current, nothing else moves
            Clause("elapsed-charged-to-current-occupancy", lambda c: Forall(1, lambda i: z3.Implies(
                z3.And(0 <= i, i < H0.len), H1.at(i).t == z3.If(i == k, H0.at(i).t + el, H0.at(i).t)), [H0.len], "hist"),
                ("C17",)),
            Def("num_workers", Num(z3.If(add, k + 1, z3.If(rem, k - 1, k))), ("C17", "C08")),
            Def("time_last_occupancy_change", Num(o.now), ("C17",)),
        ]
    C["Machine"]["_update_worker_occupancy"] = FnContract(
        "_update_worker_occupancy", [("action", ("dyn",), NONE)],
        pre=lambda st, args: [("index-in-range", z3.And(0 <= st.f["num_workers"].t,
                                                        st.f["num_workers"].t < st.f["time_per_work_occupancy"].len))],
        post=uwo_post,
        excs=[ExcCase("ValueError", lambda c: z3.Or(
            z3.Not(z3.Or(V.eq(c.args["action"], VStr("ADD")), V.eq(c.args["action"], VStr("REMOVE")),
                         V.eq(c.args["action"], VStr("UPDATE")))),
            z3.And(V.eq(c.args["action"], VStr("UPDATE")),
                   c.old.f["num_workers"].t != z3.Select(c.old.heap_arr("res_users"), c.old.f["worker_thread"].t))),
            "unknown-action-or-inconsistent-occupancy", unchanged=True, props=("C17",))],
        normal_requires=lambda c: z3.And(
            z3.Or(V.eq(c.args["action"], VStr("ADD")), V.eq(c.args["action"], VStr("REMOVE")),
                  V.eq(c.args["action"], VStr("UPDATE"))),
            z3.Implies(V.eq(c.args["action"], VStr("UPDATE")),
                       c.old.f["num_workers"].t == z3.Select(c.old.heap_arr("res_users"), c.old.f["worker_thread"].t))),
        modifies=("time_per_work_occupancy", "num_workers", "time_last_occupancy_change"),
        uses_inv=False, keeps_inv=False, props=("C17", "C08"))

    # ---- index selection: _get_out_edge_index / _get_in_edge_index (Machine)
    def mk_index(cls, side, records):
        fld = side + "_edge_selection"
        edges = side + "_edges"
        hist = "stats." + fld

        def val(c):
            d = c.old.f[fld]
            if c.side == "callee":
                cs = c.new.ghost.get("consults", [])
                cs0 = c.old.ghost.get("consults", [])
                return cs[-1][2] if len(cs) > len(cs0) else d
            if "val" not in c._ghosts:
                c._ghosts["val"] = VDyn("sel!%s" % _n())
                c.new.assume(c._ghosts["val"].well_formed())
            return c._ghosts["val"]

        def is_int(v):
            return z3.Or(v.tag == V.T_INT, v.tag == V.T_BOOL)

        def in_range(c):
            v = val(c)
            n = c.old.f[edges].val.len
            return z3.And(v.is_num(), 0 <= v.num, v.num < z3.ToReal(n))

        def post(c):
            o, n = c.old, c.new
            d = o.f[fld]
            v = val(c)
            items = [
                Clause("constant-index-used-as-is", lambda c: z3.Implies(is_int(d), V.same_dyn(v, d)), ("C15",)),
                Clause("result-is-the-value-obtained", lambda c: V.same_dyn(c.res, v), ("C15",)),
            ] + ([Clause("result-in-range", lambda c: in_range(c), ("C15", "C20"))] if records else []) + [
                Structural("policy-consulted-exactly-once", lambda c: consults_ok(c, d, also_int=True), ("C15",),
                           caller_effect=lambda c: c.new.ghost.setdefault("consults", []).append(
                               ("contract", d.oid, v, z3.Not(is_int(d))))),
            ]
            if records:
                H = o.f[hist]
                items.append(Clause("selection-recorded", lambda c: z3.And(
                    n.f[hist].len == H.len + 1,
                    z3.Implies(is_int(v), z3.ToReal(n.f[hist].at(H.len).t) == v.num)), ("C15",)))
                items.append(Clause("history-prefix-kept", lambda c: V.forall_idx(
                    H, lambda i, x: n.f[hist].at(i).t == x.t, "hist"), ("C15",)))
            return items
        excs = [ExcCase("ValueError", lambda c: z3.Not(z3.Or(is_int(c.old.f[fld]), c.old.f[fld].tag == V.T_GEN,
                                                              c.old.f[fld].tag == V.T_FUNC)),
                        "policy-not-int-generator-or-callable", unchanged=True, props=("C20",))]
        if records:
            excs.append(ExcCase("AssertionError", lambda c: z3.And(val(c).is_num(), z3.Not(in_range(c))),
                                "index-out-of-range", unchanged=True, props=("C15", "C20")))
            excs.append(ExcCase("TypeError", lambda c: z3.Or(z3.Not(val(c).is_num()), c.old.f[edges].isnone),
                                "index-not-a-number", unchanged=True, props=("C20",)))
        con = FnContract("_get_%s_edge_index" % side, [], post=post, excs=excs,
                         normal_requires=(lambda c: z3.And(in_range(c), z3.Not(c.old.f[edges].isnone))) if records else None,
                         modifies=((hist,) if records else ()), uses_inv=False, keeps_inv=False, result_kind=("dyn",),
                         props=("C15", "C20"))
        return con
    for cls in ("Machine", "Splitter"):
        C[cls]["_get_out_edge_index"] = mk_index(cls, "out", True)
        C[cls]["_get_in_edge_index"] = mk_index(cls, "in", True)
    C["Combiner"]["_get_out_edge_index"] = mk_index("Combiner", "out", True)
    C["Source"]["_get_out_edge_index"] = mk_index("Source", "out", False)
    install_more(lib)


class FrameLoop:
    """loop that only touches the listed fields / heap attributes; the invariant is `extra` (default: nothing)"""
    variant = None

    def __init__(self, fields=(), heaps=(), extra=None, props=()):
        self.fields, self.heaps, self.extra, self.props = fields, heaps, extra, props

    def havoc(self, ex, st, node, ordinal):
        tag = "lh%s" % _n()
        for f in self.fields:
            if f in st.f:
                from pyvc.contract import _fresh_like
                st.f[f] = _fresh_like(st.f[f], "%s.%s" % (tag, f))
        for h in self.heaps:
            st.heap_arr(h)
            st.havoc_heap(h, tag)
        idxname = "__i%d" % ordinal
        if idxname in st.loc:
            st.loc[idxname] = Num(z3.Int(tag + ".i"))
            logic.REG.index_consts.add(tag + ".i")
        for n in ast.walk(node):
            if isinstance(n, ast.Name) and isinstance(n.ctx, ast.Store):
                st.loc[n.id] = None

    def inv(self, ex, entry, st, mode):
        out = []
        for k, v in st.loc.items():
            if k.startswith("__i") and isinstance(v, Num):
                out.append(("index-nonneg", v.t >= 0))
        if self.extra:
            out += self.extra(ex, entry, st, mode)
        return out


def install_more(lib):
    C = lib.contracts

    # ---- Machine.update_final_state_time(T)
    def mfin_pre(st, args):
        T = args["simulation_end_time"].t
        return [("finalised-at-the-current-time", T == st.now),
                ("threads-within-capacity", st.f["worker_thread_list"].len <= st.f["work_capacity"].t),
                ("occupancy-consistent", st.f["num_workers"].t == z3.Select(st.heap_arr("res_users"), st.f["worker_thread"].t))]

    def mfin_post(c):
        o, n = c.old, c.new
        T = c.args["simulation_end_time"].t
        rep = o.f["state_rep"]
        p, b = rep.val.items[0].t, rep.val.items[1].t
        running = z3.And(z3.Not(rep.isnone), p >= 0, b >= 0)
        sa = n.f[TT + "SETUP_STATE"].t + sum(n.f[TT + k].t for k in GROUP_A)
        sb = n.f[TT + "SETUP_STATE"].t + sum(n.f[TT + k].t for k in GROUP_B)
        H0, H1 = o.f["time_per_work_occupancy"], n.f["time_per_work_occupancy"]
        k_ = o.f["num_workers"].t
        return [
            # statement C17: after finalisation at T each documented group adds up to T, all totals non-negative
            Clause("groupA-adds-up-to-T", lambda c: z3.Implies(running, sa == T), ("C17",)),
            Clause("groupB-adds-up-to-T", lambda c: z3.Implies(running, sb == T), ("C17",)),
            Clause("totals-nonnegative", lambda c: z3.And(*[n.f[TT + k].t >= 0 for k in ["SETUP_STATE"] + GROUP_A + GROUP_B[1:]]),
                   ("C17",)),
            Clause("occupancy-histogram-charged-up-to-T", lambda c: Forall(1, lambda i: z3.Implies(
                z3.And(0 <= i, i < H0.len), H1.at(i).t == z3.If(i == k_, H0.at(i).t + (T - o.f["time_last_occupancy_change"].t),
                                                              H0.at(i).t)), [H0.len], "hist"), ("C17",)),
            Clause("occupancy-clock-at-T", lambda c: n.f["time_last_occupancy_change"].t == T, ("C17",)),
        ]
    C["Machine"]["update_final_state_time"] = FnContract(
        "update_final_state_time", [("simulation_end_time", ("num", "real"), None)], pre=mfin_pre, post=mfin_post,
        modifies=tuple(TT + k for k in MIRROR) + tuple(MIRROR.values()) + (
            "stats.last_state_change_time", "state_rep", "time_per_work_occupancy", "num_workers",
            "time_last_occupancy_change", "per_thread_total_time_in_blocked_state",
            "per_thread_total_time_in_processing_state"),
        uses_inv=True, keeps_inv=True, props=("C17",))
    C["Machine"]["update_final_state_time"].loops = {0: FrameLoop(
        fields=("per_thread_total_time_in_blocked_state", "per_thread_total_time_in_processing_state"), props=("C17",))}

    # ---- update_state(new_state, current_time) of Node / Source / Splitter / Combiner and
    #      update_final_state_time of Source / Sink / Splitter / Combiner
    def mk_update_state(cls):
        states = lib.profile(cls).get("states") or []

        def post(c):
            o, n = c.old, c.new
            last = o.f["stats.last_state_change_time"]
            ct = c.args["current_time"].t
            cur = o.f["state"]
            items = [Def("stats.last_state_change_time", VOpt(z3.BoolVal(False), Num(ct)), ("C17",)),
                     Clause("state-set", lambda c: V.eq(n.f["state"], c.args["new_state"]), ("C17",))]
            for s_ in states:
                items.append(Clause("charges-elapsed-to-the-state-left." + s_, lambda c, s_=s_: n.f[TT + s_].t == z3.If(
                    z3.And(z3.Not(last.isnone), cur.t == sc(s_)), o.f[TT + s_].t + (ct - last.val.t), o.f[TT + s_].t), ("C17",)))
            return items
        return FnContract("update_state", [("new_state", ("str",), None), ("current_time", ("num", "real"), None)],
                          pre=lambda st, args: [("state-known", z3.Or(*[st.f["state"].t == sc(s_) for s_ in states]))],
                          post=post, modifies=tuple(TT + s_ for s_ in states) + ("state", "stats.last_state_change_time"),
                          uses_inv=False, keeps_inv=False, props=("C17",))
    for cls in ("Source", "Splitter", "Combiner"):
        C[cls]["update_state"] = mk_update_state(cls)

    def mk_final(cls):
        states = lib.profile(cls)["states"]

        def post(c):
            o, n = c.old, c.new
            T = c.args["simulation_end_time"].t
            last = o.f["stats.last_state_change_time"]
            cur = o.f["state"]
            items = []
            for s_ in states:
                items.append(Clause("charges-the-open-interval-to-the-current-state." + s_, lambda c, s_=s_: n.f[TT + s_].t == z3.If(
                    cur.t == sc(s_), o.f[TT + s_].t + (T - last.val.t), o.f[TT + s_].t), ("C17",)))
            return items
        mods = tuple(TT + s_ for s_ in states)
        con = FnContract("update_final_state_time", [("simulation_end_time", ("num", "real"), None)],
                         pre=lambda st, args: [("state-known", z3.Or(*[st.f["state"].t == sc(s_) for s_ in states]))],
                         post=post,
                         excs=[ExcCase("TypeError", lambda c: c.old.f["stats.last_state_change_time"].isnone,
                                       "finalised-before-the-first-state-change", unchanged=True, props=("C17", "C20"))],
                         normal_requires=lambda c: z3.Not(c.old.f["stats.last_state_change_time"].isnone),
                         modifies=mods, uses_inv=False, keeps_inv=False, props=("C17",))
        return con
    for cls in ("Source", "Sink"):
        C[cls]["update_final_state_time"] = mk_final(cls)

    # ---- Machine.reset(): policy parameters validated (C20), ROUND_ROBIN/RANDOM names turned into generators (C15)
    def reset_ok(c, side):
        d = c.old.f[side + "_edge_selection"]
        n_ = c.old.f[side + "_edges"]
        is_int = z3.Or(d.tag == V.T_INT, d.tag == V.T_BOOL)
        return is_int, z3.And(0 <= d.num, d.num < z3.ToReal(n_.val.len)), d

    def mreset_post(c):
        n = c.new
        return [Clause("state-rep-marks-setup", lambda c: z3.And(z3.Not(n.f["state_rep"].isnone),
                                                                 n.f["state_rep"].val.items[0].t == -1,
                                                                 n.f["state_rep"].val.items[1].t == -1), ("C17",))]

    def bad_const(c):
        ii, ir, di = reset_ok(c, "in")
        oi, orr, do = reset_ok(c, "out")
        return z3.Or(z3.And(ii, z3.Not(ir)), z3.And(z3.Or(z3.Not(ii), ir), known_in(c), oi, z3.Not(orr)))

    def known(d):
        return z3.Or(d.tag == V.T_INT, d.tag == V.T_BOOL, d.tag == V.T_STR, d.tag == V.T_FUNC, d.tag == V.T_GEN)

    def known_in(c):
        return known(c.old.f["in_edge_selection"])
    C["Machine"]["reset"] = None
    del C["Machine"]["reset"]


def consults_ok(c, d, also_int=False):
    cs = c.new.ghost.get("consults", [])
    cs0 = c.old.ghost.get("consults", [])
    new = cs[len(cs0):]
    drawn = z3.Or(d.tag == V.T_GEN, d.tag == V.T_FUNC)
    count = z3.Sum([z3.If(x[3], 1, 0) for x in new]) if new else z3.IntVal(0)
    same = [z3.Implies(x[3], x[1] == d.oid) for x in new]
    return z3.And(count == z3.If(drawn, 1, 0), *same)
