"""contracts.qstore -- priority_req_store.py: SortedQueue.append, PriorityGet/PriorityPut.__init__ (property C05).

SortedQueue is a list subclass: `self` is the list (field "__list__").  Requests carry key = (priority, time).
Head-first service of the two queues is SimPy's BaseResource._trigger_put/_trigger_get (trusted, not verified)."""
import ast
import z3
from pyvc import values as V
from pyvc import logic
from pyvc.logic import Forall
from pyvc.state import State
from pyvc.contract import FnContract, Def, DefRes, Clause, ExcCase, Structural
from pyvc.execute import Exc, Outcome, FieldRef, SelfRef
from pyvc.values import Num, VObj, VBool, VOpaque, NONE, SList, Unsupported, VOpt
from pyvc.lib_base import LibBase

REQ = ("obj", "request")
PROFILES = {
    "SortedQueue": dict(file="base/priority_req_store.py", cls="SortedQueue"),
    "PriorityGet": dict(file="base/priority_req_store.py", cls="PriorityGet"),
    "PriorityPut": dict(file="base/priority_req_store.py", cls="PriorityPut"),
}
L = "__list__"


def key_of(st, e):
    return (z3.Select(st.heap_arr("key") or st.h["key#0"], e) if False else z3.Select(st.h["key#0"], e),
            z3.Select(st.h["key#1"], e))


def key_le(a, b):
    return z3.Or(a[0] < b[0], z3.And(a[0] == b[0], a[1] <= b[1]))


def key_lt(a, b):
    return z3.Or(a[0] < b[0], z3.And(a[0] == b[0], a[1] < b[1]))


class QLib(LibBase):
    def __init__(self):
        super().__init__()
        self.contracts = {k: self._make(k) for k in PROFILES}

    def classes(self):
        return list(PROFILES)

    def profile(self, cls):
        return PROFILES[cls]

    def unit_props(self, cls, fn):
        return set(self.contracts[cls][fn].props)

    def chi(self, cls, name, old, args):
        return None

    def initial_state(self, cls, fname, con):
        st = State()
        st.now = z3.Real("now")
        st.active = z3.Int("active_process")
        st.next_id = z3.Int("next_id")
        st.assume(st.now >= 0)
        st.heap_arr("key")
        if cls == "SortedQueue" and not con.is_init:
            st.f[L] = V.mk_base_list("s0.queue", REQ)
            st.f["maxlen"] = V.mk_value("s0.maxlen", ("opt", ("num", "int")))
        return st

    def validity(self, cls, st, con):
        if cls == "SortedQueue" and not con.is_init:
            return [("valid.len", st.f[L].len >= 0)]
        return []

    def invariant(self, cls, st, side="prove"):
        if cls != "SortedQueue":
            return []
        q = st.f[L]
        # sorted by (priority, time); among equal keys the order is the arrival order, which the ghost arrival
        # stamp `seq` (object identity: allocated increasingly) makes visible
        return [("I-ord.sorted-by-key", V.forall_idx2(q, q, lambda i, j, a, b: key_le(key_of(st, a.t), key_of(st, b.t)),
                                                       "I-ord", strict_lt=True), ("C05",)),
                ("I-ord.fcfs-among-equals", V.forall_idx2(q, q, lambda i, j, a, b: z3.Implies(
                    z3.And(key_of(st, a.t)[0] == key_of(st, b.t)[0], key_of(st, a.t)[1] == key_of(st, b.t)[1]), a.t < b.t),
                    "I-fcfs", strict_lt=True), ("C05",))]

    def bind_params(self, cls, fname, fnode, con, st):
        args = {}
        for (nm, kind, default) in con.params:
            args[nm] = V.mk_value("arg." + nm, kind)
        return args

    def frame(self, cls, con, old, new):
        return []

    def len_terms(self, st):
        return [v.len for v in st.f.values() if isinstance(v, SList)]

    def model_to_json(self, st, m, ob):
        return {}

    # hooks
    def len_of(self, ex, v, st, lineno):
        if isinstance(v, SelfRef) and L in st.f:
            return [(Num(st.f[L].len), st)]
        return None

    def call_super(self, ex, name, args, st, lineno):
        node = ex.ctx.super_call_node
        cls = ex.ctx.cls
        if cls == "SortedQueue":
            if name == "__init__":
                s = st.fork()
                s.f[L] = V.list_empty(REQ)
                return [(NONE, s)]
            fake = ast.Call(func=ast.Attribute(value=ast.Name(id="__self_list", ctx=ast.Load()), attr=name, ctx=ast.Load()),
                            args=node.args, keywords=node.keywords)
            ast.copy_location(fake, node)
            ast.fix_missing_locations(fake)
            return ex.list_method(FieldRef(L), name, args, st, fake)
        if name == "__init__":
            # simpy.resources.base.Put/Get.__init__(resource): appends the request to the resource's queue
            # (SortedQueue.append reads request.key) -> the key must have been assigned already
            s = st.fork()
            s.ghost["key_set_before_enqueue"] = ("key" in s.f)
            return [(NONE, s)]
        raise Unsupported("super().%s" % name)

    def list_sort(self, ex, base, lst, node, st, write):
        """stable sort of a list whose first n-1 elements are sorted by the tuple key (A-sort)"""
        key = [k.value for k in node.keywords if k.arg == "key"][0]
        var = key.args.args[0].arg

        def keyof(elem, s=st):
            s2 = s.fork()
            s2.loc[var] = elem
            v = ex.eval_pure(key.body, s2, node.lineno)
            return (v.items[0].t, v.items[1].t)
        n = lst.len
        res = []
        for b, s in ex.branch(st, n == 0, node.lineno):
            if b:
                res.append((NONE, s))
                continue
            body = V.list_slice_to(lst, n - 1)
            last = lst.at(n - 1)
            ex.ctx.oblige("sort.prefix-sorted@L%d" % node.lineno, s, [
                Forall(2, lambda i, j: z3.Implies(z3.And(0 <= i, i < j, j < n - 1),
                                                  key_le(keyof(lst.at(i)), keyof(lst.at(j)))), [n, n], "prefix-sorted")],
                "call-pre", node.lineno, ("C05",))
            pos = logic.fresh_idx("sortpos")
            kl = keyof(last)
            s.assume(z3.And(0 <= pos, pos <= n - 1))
            s.assume(Forall(1, lambda i: z3.Implies(z3.And(0 <= i, i < pos), key_le(keyof(lst.at(i)), kl)), [n], "before"))
            s.assume(Forall(1, lambda i: z3.Implies(z3.And(pos <= i, i < n - 1), key_lt(kl, keyof(lst.at(i)))), [n], "after"))
            write(s, V.list_insert(body, pos, last))
            res.append((NONE, s))
        return res

    def call_opaque(self, ex, base, name, args, kw, st, node):
        """bisect.bisect_left / bisect_right(self, x, key=lambda e: e.key) on the sorted queue"""
        if base.tag == "module:bisect" and name in ("bisect_left", "bisect_right", "bisect") and isinstance(args[0], SelfRef):
            keyn = [k.value for k in node.keywords if k.arg == "key"]
            if len(keyn) != 1 or not isinstance(keyn[0], ast.Lambda):
                raise Unsupported("bisect without key lambda")
            var = keyn[0].args.args[0].arg
            lst = st.f[L]

            def keyof(elem):
                s2 = st.fork()
                s2.loc[var] = elem
                v = ex.eval_pure(keyn[0].body, s2, node.lineno)
                return (v.items[0].t, v.items[1].t)
            x = args[1]
            if not isinstance(x, V.VTuple):
                raise Unsupported("bisect key value")
            kx = (x.items[0].t, x.items[1].t)
            p = logic.fresh_idx("bisect")
            s = st.fork()
            s.assume(z3.And(0 <= p, p <= lst.len))
            if name == "bisect_left":
                s.assume(Forall(1, lambda i: z3.Implies(z3.And(0 <= i, i < p), key_lt(keyof(lst.at(i)), kx)), [lst.len], "bl"))
                s.assume(Forall(1, lambda i: z3.Implies(z3.And(p <= i, i < lst.len), key_le(kx, keyof(lst.at(i)))), [lst.len], "br"))
            else:
                s.assume(Forall(1, lambda i: z3.Implies(z3.And(0 <= i, i < p), key_le(keyof(lst.at(i)), kx)), [lst.len], "bl"))
                s.assume(Forall(1, lambda i: z3.Implies(z3.And(p <= i, i < lst.len), key_lt(kx, keyof(lst.at(i)))), [lst.len], "br"))
            return [(Num(p), s)]
        return None

    def builtin(self, ex, name, args, kw, st, node):
        # `from bisect import bisect_left` and a call by bare name: same model as bisect.bisect_left
        if name in ("bisect_left", "bisect_right", "bisect"):
            return self.call_opaque(ex, VOpaque("module:bisect"), name, args, kw, st, node)
        return None

    def obj_attr(self, ex, base, attr, st, lineno):
        if attr == "_env":
            from pyvc.execute import EnvRef
            return [(EnvRef(), st)]
        return [(st.heap_get(base, attr), st)]

    def set_self_attr(self, ex, attr, v, st, lineno):
        return None

    def _make(self, cls):
        C = {}
        if cls == "SortedQueue":
            def post(c):
                o, n = c.old, c.new
                x = c.args["item"]
                q = o.f[L]
                kx = key_of(o, x.t)
                return [
                    Clause("one-longer", lambda c: n.f[L].len == q.len + 1, ("C05",)),
                    # the new request goes behind every waiting request with key <= its own (first come first served
                    # among equals) and ahead of every request with a larger key; nobody else moves
                    Clause("stable-position", lambda c: logic.Exists(1, lambda p: z3.And(
                        0 <= p, p <= q.len, n.f[L].at(p).t == x.t), [n.f[L].len], "pos"), ("C05",)),
                    Clause("others-keep-their-relative-order-and-new-one-is-last-among-equals",
                           lambda c: Forall(1, lambda i: z3.Implies(z3.And(0 <= i, i < q.len), z3.And(
                               z3.Implies(key_le(key_of(o, q.at(i).t), kx), n.f[L].at(i).t == q.at(i).t),
                               z3.Implies(key_lt(kx, key_of(o, q.at(i).t)), n.f[L].at(i + 1).t == q.at(i).t))),
                               [q.len], "stable"), ("C05",)),
                ]
            C["append"] = FnContract(
                "append", [("item", REQ, None)],
                pre=lambda st, args: [("fresh-request: arrives after every waiting one",
                                       V.forall_idx(st.f[L], lambda i, e: e.t < args["item"].t, "fresh"))],
                post=post,
                excs=[ExcCase("RuntimeError", lambda c: z3.And(z3.Not(c.old.f["maxlen"].isnone),
                                                               c.old.f[L].len >= c.old.f["maxlen"].val.t),
                              "queue-full", unchanged=True, props=("C05",))],
                normal_requires=lambda c: z3.Or(c.old.f["maxlen"].isnone, c.old.f[L].len < c.old.f["maxlen"].val.t),
                modifies=(L,), props=("C05",))
            return C
        params = [("resource", ("obj", "resource"), None)]
        if cls == "PriorityPut":
            params.append(("item", ("obj", "item"), None))
        params.append(("priority", ("num", "real"), Num(0)))

        def post_req(c):
            n = c.new
            return [Clause("key-is-priority-then-arrival-time", lambda c: z3.And(
                n.f["key"].items[0].t == V.as_num(c.args["priority"]).t if not V.as_num(c.args["priority"]).is_int
                else n.f["key"].items[0].t == z3.ToReal(V.as_num(c.args["priority"]).t),
                n.f["key"].items[1].t == c.old.now), ("C05",)),
                Structural("key-assigned-before-the-request-is-enqueued",
                           lambda c: bool(c.new.ghost.get("key_set_before_enqueue")), ("C05",))]
        C["__init__"] = FnContract("__init__", params, post=post_req, uses_inv=False, keeps_inv=False, is_init=True,
                                   props=("C05",))
        return C


def make_lib():
    return QLib()
