"""contracts.nodes_split_comb -- Splitter and Combiner process bodies (C03 C08 C09 C10 C15 C16 C18)"""
import ast
import re
import z3
from pyvc import values as V
from pyvc import logic
from pyvc.logic import Forall, Exists
from pyvc.contract import FnContract, Def, Clause, ExcCase, Structural, _fresh_like
from pyvc.execute import VTimeout, FieldRef
from pyvc.values import Num, VObj, VBool, VStr, VOpaque, NONE, SList, Unsupported, VDyn, VOpt
from contracts.nodes_proc import sel, sc, tokens_consumed_clauses, put_count, PUT, GET, store_of_edge, oracle
from contracts.nodes_sink import ProcLoop, CancelLoop
from contracts.nodes_sl import FrameLoop, TT
from contracts.nodes_source import mk_push_item, edges_assumptions, selection_ready, ScanLoop, mk_reset
from contracts.nodes_machine import IndexMatchLoop

ACC = ("state", "stats.last_state_change_time", TT + "SETUP_STATE", TT + "IDLE_STATE", TT + "PROCESSING_STATE",
       TT + "BLOCKED_STATE", "num_workers", "time_last_occupancy_change", "time_per_work_occupancy", "worker_thread_list",
       "per_thread_total_time_in_blocked_state", "per_thread_total_time_in_processing_state")
PI = "__pallet_items"


def _n():
    return logic.fresh("n").decl().name().split("!")[1]


def state_known(st):
    return z3.Or(*[st.f["state"].t == sc(x) for x in ("SETUP_STATE", "IDLE_STATE", "PROCESSING_STATE", "BLOCKED_STATE")])


STATES4 = ("SETUP_STATE", "IDLE_STATE", "PROCESSING_STATE", "BLOCKED_STATE")


def acc_clauses(st):
    """C17 for Splitter/Combiner: the clock of the state accounting runs from construction (A-start: time 0) and the
    per-state totals add up to the time of the last state change"""
    f = st.f
    last = f["stats.last_state_change_time"]
    tot = sum(f[TT + s_].t for s_ in STATES4)
    return [("I-acc.clock-started", z3.Not(last.isnone)),
            ("I-acc.states-sum-to-last-change", z3.Implies(z3.Not(last.isnone), tot == last.val.t)),
            ("I-acc.last-change-in-the-past", z3.Implies(z3.Not(last.isnone), last.val.t <= st.now)),
            ("I-acc.nonneg", z3.And(*[f[TT + s_].t >= 0 for s_ in STATES4]))]


def act_clauses(st):
    """C17, second sentence, for Splitter/Combiner (work_capacity is 1, so at most one worker is alive): the node state
    reflects what the live worker is doing -- PROCESSING while it processes, BLOCKED while it holds a finished unit it
    cannot deliver, IDLE (or still SETUP) when there is none"""
    from contracts.nodes_sl import _ts
    L = st.f["worker_thread_list"]
    w0 = L.at(z3.IntVal(0)).t
    stt = st.f["state"].t
    return [("I-act.one-worker-slot", z3.And(st.f["work_capacity"].t == 1, L.len >= 0, L.len <= 1)),
            ("I-act.no-worker-during-set-up", z3.Implies(stt == sc("SETUP_STATE"), L.len == 0)),
            ("I-act.no-worker-means-idle-or-setup", z3.Implies(L.len == 0, z3.Or(stt == sc("IDLE_STATE"), stt == sc("SETUP_STATE")))),
            ("I-act.processing-worker-means-PROCESSING", z3.Implies(z3.And(L.len == 1, _ts(st, w0) == sc("PROCESSING_STATE")),
                                                                    stt == sc("PROCESSING_STATE"))),
            ("I-act.blocked-worker-means-BLOCKED", z3.Implies(z3.And(L.len == 1, _ts(st, w0) == sc("BLOCKED_STATE")),
                                                              stt == sc("BLOCKED_STATE")))]


def acc_ok(st):
    return z3.And(*[cl for _, cl in acc_clauses(st)])


def mk_final_sc(lib, cls):
    """update_final_state_time(T) of Splitter/Combiner: the open interval is charged to the current state, after which
    the four totals add up to T; never raises (the clock is started at construction)"""
    def post(c):
        o, n = c.old, c.new
        T = c.args["simulation_end_time"].t
        last = o.f["stats.last_state_change_time"]
        cur = o.f["state"]
        items = []
        for s_ in STATES4:
            items.append(Clause("charges-the-open-interval-to-the-current-state." + s_, lambda c, s_=s_: n.f[TT + s_].t == z3.If(
                cur.t == sc(s_), o.f[TT + s_].t + (T - last.val.t), o.f[TT + s_].t), ("C17",)))
        items.append(Clause("totals-add-up-to-T", lambda c: sum(n.f[TT + s_].t for s_ in STATES4) == T, ("C17",)))
        items.append(Clause("totals-nonneg", lambda c: z3.And(*[n.f[TT + s_].t >= 0 for s_ in STATES4]), ("C17",)))
        return items
    con = FnContract(
        "update_final_state_time", [("simulation_end_time", ("num", "real"), None)],
        pre=lambda st, args: [("state-known", state_known(st)), ("finalised-at-the-current-time",
                                                                 args["simulation_end_time"].t == st.now),
                              ("occupancy", z3.And(st.f["num_workers"].t >= 0, st.f["num_workers"].t <= st.f["work_capacity"].t,
                                                   st.f["time_per_work_occupancy"].len == st.f["work_capacity"].t + 1,
                                                   st.f["time_last_occupancy_change"].t <= st.now)),
                              ("occupancy-consistent", st.f["num_workers"].t == z3.Select(
                                  st.heap_arr("res_users"), st.f["worker_thread"].t))] + acc_clauses(st),
        post=post,
        modifies=tuple(TT + s_ for s_ in STATES4) + ("time_per_work_occupancy", "time_last_occupancy_change",
                                                     "per_thread_total_time_in_blocked_state",
                                                     "per_thread_total_time_in_processing_state"),
        uses_inv=False, keeps_inv=False, props=("C17", "C20"))
    con.loops = {0: FrameLoop(fields=("per_thread_total_time_in_blocked_state", "per_thread_total_time_in_processing_state"),
                              props=("C17",))}
    return con


def mk_state_check(lib, cls, name):
    """check_thread_state_and_update_<x>_state(): recounts the worker states and moves the node to IDLE / PROCESSING /
    BLOCKED accordingly; its ValueError branch is unreachable because every listed worker is PROCESSING or BLOCKED
    (counting axiom A-count)."""
    con = FnContract(name, [], post=lambda c: [
        Clause("state-known", lambda c: state_known(c.new), ("C17",)),
        Clause("no-live-worker-means-idle", lambda c: z3.Implies(c.old.f["worker_thread_list"].len == 0,
                                                                  c.new.f["state"].t == sc("IDLE_STATE")), ("C17",)),
        Clause("state-reflects-the-live-worker", lambda c: z3.Implies(
            c.old.f["work_capacity"].t == 1, z3.And(*[cl for nm, cl in act_clauses(c.new)[1:]])), ("C17",)),
        Clause("accounting-kept", lambda c: z3.Implies(acc_ok(c.old), z3.And(
            acc_ok(c.new), c.new.f["stats.last_state_change_time"].val.t == c.old.now)), ("C17",))],
                     pre=lambda st, args: [("state-known", state_known(st)),
                                           ("threads-within-capacity", st.f["worker_thread_list"].len <= st.f["work_capacity"].t)],
                     modifies=("state", "stats.last_state_change_time", TT + "SETUP_STATE", TT + "IDLE_STATE",
                               TT + "PROCESSING_STATE", TT + "BLOCKED_STATE"),
                     uses_inv=False, keeps_inv=False, props=("C17", "C20"))
    return con


def disposal_obligations(ob, st, head_f, it, blocking, waits_from=0, what="item"):
    puts = put_count(st, it)
    allputs = st.ghost.get("puts", [])
    ddis = st.f["stats.num_item_discarded"].t - head_f["stats.num_item_discarded"].t
    dpro = st.f["stats.num_item_processed"].t - head_f["stats.num_item_processed"].t
    ob("%s-pushed-once-or-discarded-and-counted" % what, z3.And(puts + ddis == 1, puts >= 0, ddis >= 0), ("C03", "C09", "C16"))
    ob("only-this-%s-is-pushed" % what, z3.And(*[p[0] == it for p in allputs]) if allputs else z3.BoolVal(True), ("C03", "C16"))
    ob("processed-counter-counts-the-push", dpro == puts, ("C18",))
    ob("blocking-node-never-discards", z3.Implies(blocking, ddis == 0), ("C09",))
    ws = [w[1] for w in st.ghost.get("waits", [])[waits_from:] if w[1] is not None and w[2] != "VTimeout"]
    ob("non-blocking-node-never-waits-with-a-finished-item",
       z3.Implies(z3.Not(blocking), z3.Not(z3.Or(*ws)) if ws else z3.BoolVal(True)), ("C09",))
    for nm, cl in tokens_consumed_clauses(st):
        ob(nm, cl, ("C10", "C08"))
    H0, H1 = head_f["stats.out_edge_selection"], st.f["stats.out_edge_selection"]
    oe = st.f["out_edges"].val
    if allputs:
        ob("routing-recorded-truthfully", z3.Implies(puts == 1, z3.And(
            H1.len == H0.len + 1, 0 <= H1.at(H0.len).t, H1.at(H0.len).t < oe.len,
            allputs[-1][1] == store_of_edge(st, oe.at(H1.at(H0.len).t).t))), ("C15",))


def worker_rely(lib, cls):
    def rely(st0, st1):
        g = z3.Function("wl_pos!%s" % _n(), z3.IntSort(), z3.IntSort())
        return acc_clauses(st1) + act_clauses(st1) + [
                # the behaviour process lists a worker (and marks it PROCESSING) before the worker takes its first step
                # (obligation `the-worker-is-listed-and-marked-processing` on the behaviour side); a worker removes
                # itself only after its last wait
                ("i-am-the-listed-worker", z3.And(st1.f["worker_thread_list"].len == 1,
                                                  st1.f["worker_thread_list"].at(z3.IntVal(0)).t == st1.active)),
                ("state-known", state_known(st1)),
                ("threads", z3.And(st1.f["worker_thread_list"].len >= 0, st1.f["worker_thread_list"].len <= st1.f["work_capacity"].t)),
                ("occupancy", z3.And(st1.f["num_workers"].t >= 1, st1.f["num_workers"].t <= st1.f["work_capacity"].t,
                                     st1.f["time_per_work_occupancy"].len == st1.f["work_capacity"].t + 1,
                                     st1.f["time_last_occupancy_change"].t <= st1.now)),
                ("workers-listed-once", V.forall_idx(st1.f["worker_thread_list"], lambda i, x: g(x.t) == i, "wl"))]
    return rely


def worker_entry(lib, cls):
    def entry(st, args):
        oe = st.f["out_edges"]
        out = [("out-edges-present", z3.And(z3.Not(oe.isnone), oe.val.len >= 1)),
               ("policy-ready", selection_ready(st.f["out_edge_selection"], oe.val.len))]
        out += edges_assumptions(st, "out_edges")
        out += worker_rely(lib, cls)(st, st)
        if "processing_delay" in args:
            out.append(("delay-nonneg", args["processing_delay"].t >= 0))
        return out
    return entry


def removal_obligations(ob, st):
    lr = st.ghost.get("last_resume")
    if lr is not None:
        L0, L1 = lr["worker_thread_list"], st.f["worker_thread_list"]
        me = st.active
        ob("removes-itself-from-the-live-workers", V.forall_idx(L1, lambda i, x: x.t != me, "me-gone"), ("C17",))
        ob("removes-nobody-else.len", L1.len >= L0.len - 1, ("C17",))
    ob("worker-slot-released", z3.BoolVal(bool(st.ghost.get("released"))), ("C08",))


def install(lib):
    C = lib.contracts
    for cls in ("Splitter", "Combiner"):
        C[cls]["_push_item"] = mk_push_item(lib, cls, False)
        nm = "check_thread_state_and_update_%s_state" % cls.lower()
        C[cls][nm] = mk_state_check(lib, cls, nm)
    for cls in ("Splitter", "Combiner"):
        C[cls]["update_final_state_time"] = mk_final_sc(lib, cls)
    C["Combiner"]["reset"] = mk_reset(lib, "Combiner", ("out",), extra_none=("processing_delay",))
    C["Splitter"]["reset"] = mk_reset(lib, "Splitter", ("in", "out"), extra_none=("processing_delay",))
    for cls in ("Splitter", "Combiner"):
        C[cls]["reset"].modifies = C[cls]["reset"].modifies + ("state",)
        for src in ("_update_worker_occupancy", "_update_avg_time_spent_in_processing", "_update_avg_time_spent_in_blocked",
                    "_count_worker_state"):
            C[cls][src] = C["Machine"][src]

    # ------------------------------------------------------------------ Combiner.worker(item, req_token)
    def comb_worker_finish(ex, outcomes):
        ctx = ex.ctx
        for k, o in enumerate(outcomes):
            if o.kind not in ("next", "return"):
                continue
            st = o.state
            ob = lambda nm, g, props: ctx.oblige("exit%d.%s" % (k, nm), st, [g], "post", 0, props)
            disposal_obligations(ob, st, ctx.old.f, ctx.args["item"].t, ctx.old.f["blocking"].t, what="pallet")
            removal_obligations(ob, st)
        return outcomes
    cw = FnContract("worker", [("item", ("obj", "item"), None), ("req_token", ("obj", "request"), None)],
                    is_generator=True, uses_inv=False, keeps_inv=False, entry_assume=worker_entry(lib, "Combiner"),
                    excs=[ExcCase("AssertionError", lambda c: z3.BoolVal(True), "user-index-rejected", unchanged=False,
                                  props=("C20", "C15"), may=True),
                          ExcCase("TypeError", lambda c: z3.BoolVal(True), "user-index-not-a-number", unchanged=False,
                                  props=("C20",), may=True)],
                    props=("C03", "C08", "C09", "C10", "C15", "C16", "C17", "C18", "C20"))
    cw.no_frame = True
    cw.finish = comb_worker_finish
    cw.shared_fields = ACC
    cw.rely = worker_rely(lib, "Combiner")
    cw.guarantee = lambda st: acc_clauses(st) + act_clauses(st)
    cw.nshards = 6
    cw.slot_of = "req_token"
    cw.unit_param = "item"
    cw.loops = {0: CancelLoop(lambda st: st.loc["chosen_put_event"].t), 1: ScanLoop("out_edges")}
    C["Combiner"]["worker"] = cw

    # ------------------------------------------------------------------ Splitter.worker(pallet, processing_delay, req_token)
    sfields = ACC + ("stats.num_item_processed", "stats.num_item_discarded", "stats.out_edge_selection", PI)

    def split_head(ex, st, mode):
        orig = ex.ctx.old.f[PI]
        cur = st.f[PI]
        k = orig.len - cur.len
        out = [("pallet-content-is-a-suffix-of-the-original.len", z3.And(cur.len >= 0, k >= 0)),
               ("pallet-content-is-a-suffix-of-the-original", Forall(1, lambda i: z3.Implies(
                   z3.And(0 <= i, i < cur.len), cur.at(i).t == orig.at(i + k).t), [cur.len], "suffix"))]
        oe = st.f["out_edges"]
        out += [("out-edges-present", z3.And(z3.Not(oe.isnone), oe.val.len >= 1)),
                ("policy-ready", selection_ready(st.f["out_edge_selection"], oe.val.len))]
        out += [x for x in worker_rely(lib, "Splitter")(st, st) if x[0] != "workers-listed-once"]
        return out

    def split_back(ex, head_f, st):
        out = []
        orig = ex.ctx.old.f[PI]
        k = orig.len - head_f[PI].len
        item = orig.at(k).t           # the item this round has taken off the pallet (statement C16: in order)
        ob = lambda nm, g, props: out.append((nm, g))
        out.append(("takes-the-next-item-off-the-pallet", z3.And(st.f[PI].len == head_f[PI].len - 1)))
        disposal_obligations(ob, st, head_f, item, st.f["blocking"].t)
        return out

    def split_finish(ex, outcomes):
        ctx = ex.ctx
        for k, o in enumerate(outcomes):
            if o.kind not in ("next", "return"):
                continue
            st = o.state
            head_f = st.ghost.get("head", ctx.old.f)
            ob = lambda nm, g, props: ctx.oblige("exit%d.%s" % (k, nm), st, [g], "post", 0, props)
            ob("pallet-is-empty-when-it-is-sent-on", st.f[PI].len == 0, ("C16",))
            disposal_obligations(ob, st, head_f, ctx.args["pallet"].t, st.f["blocking"].t, what="emptied-pallet")
            removal_obligations(ob, st)
        return outcomes

    def split_at_yield(ex, ordinal, ynode, value, st):
        if ordinal == 0:
            ok = isinstance(value, VTimeout)
            ex.ctx.oblige("yield0.first-wait-is-the-processing-delay", st,
                          [value.delay.t == ex.ctx.args["processing_delay"].t if ok else z3.BoolVal(False)], "yield",
                          ynode.lineno, ("C08",))
    sw = FnContract("worker", [("pallet", ("obj", "item"), None), ("processing_delay", ("num", "real"), None),
                               ("req_token", ("obj", "request"), None)],
                    is_generator=True, uses_inv=False, keeps_inv=False,
                    entry_assume=lambda st, args: worker_entry(lib, "Splitter")(st, args) + [
                        ("pallet-content", st.f[PI].len >= 0),
                        ("A-pallet: the items on the pallet are distinct flow items, different from the pallet",
                         V.forall_idx(st.f[PI], lambda i, x: x.t != args["pallet"].t, "pallet-items"))],
                    excs=[ExcCase("AssertionError", lambda c: z3.BoolVal(True), "user-index-rejected", unchanged=False,
                                  props=("C20", "C15"), may=True),
                          ExcCase("TypeError", lambda c: z3.BoolVal(True), "user-index-not-a-number", unchanged=False,
                                  props=("C20",), may=True)],
                    props=("C03", "C08", "C09", "C10", "C15", "C16", "C17", "C18", "C20"))
    sw.no_frame = True
    sw.finish = split_finish
    sw.at_yield = split_at_yield
    sw.shared_fields = ACC
    sw.guarantee = lambda st: acc_clauses(st) + act_clauses(st)
    sw.rely = worker_rely(lib, "Splitter")
    sw.nshards = 8
    sw.slot_of = "req_token"
    sw.pallet_param = "pallet"
    sw.loops = {0: ProcLoop(lib, "Splitter", sfields, back=split_back, head=split_head, props=("C03", "C09", "C10", "C16"),
                            heaps=("thread_state",), keep_now=False),
                1: CancelLoop(lambda st: st.loc["chosen_put_event"].t), 2: ScanLoop("out_edges"),
                3: CancelLoop(lambda st: st.loc["chosen_put_event"].t), 4: ScanLoop("out_edges")}
    C["Splitter"]["worker"] = sw
    install_behaviours(lib)


def install_behaviours(lib):
    C = lib.contracts

    def brely(st0, st1):
        k = len(st1.ghost.get("slots", []))
        cap = st1.f["work_capacity"].t
        return acc_clauses(st1) + act_clauses(st1) + [
                # only this process lists workers: while it waits the list can only shrink
                ("no-new-worker-while-the-behaviour-waits", st1.f["worker_thread_list"].len <= st0.f["worker_thread_list"].len),
                ("state-known", state_known(st1)),
                ("K-Resource.threads-plus-own-slot-within-capacity", z3.And(
                    st1.f["worker_thread_list"].len >= 0, st1.f["worker_thread_list"].len + k <= cap)),
                ("occupancy", z3.And(st1.f["num_workers"].t >= 0, st1.f["num_workers"].t + (1 if k >= 1 and not st1.ghost.get("occ_added") else 0) <= cap,
                                     st1.f["time_per_work_occupancy"].len == cap + 1,
                                     st1.f["time_last_occupancy_change"].t <= st1.now))]

    def common_head(st, sides):
        out = [(nm, cl, ("C17",)) for nm, cl in acc_clauses(st) + act_clauses(st)] + [
               ("state-known", state_known(st)),
               ("threads", z3.And(st.f["worker_thread_list"].len >= 0, st.f["worker_thread_list"].len <= st.f["work_capacity"].t)),
               ("occupancy", z3.And(st.f["num_workers"].t >= 0, st.f["num_workers"].t <= st.f["work_capacity"].t,
                                    st.f["time_per_work_occupancy"].len == st.f["work_capacity"].t + 1,
                                    st.f["time_last_occupancy_change"].t <= st.now)),
               ("processing-delay-given", st.f["processing_delay"].tag != V.T_NONE),
               ("nothing-in-hand", z3.And(st.f["pallet_in_process"].isnone, st.f["item_in_process"].isnone))]
        for s_ in sides:
            e = st.f[s_ + "_edges"]
            out.append(("%s-edges-present" % s_, z3.And(z3.Not(e.isnone), e.val.len >= 1)))
            out.append(("%s-policy-ready" % s_, selection_ready(st.f[s_ + "_edge_selection"], e.val.len))
                       if (s_ + "_edge_selection") in st.f else ("%s-edges" % s_, z3.BoolVal(True)))
        return out

    def spawn_obligations(st, head_f, out, gets_item, worker_arg, slot_at_pull):
        sp = [x for x in st.ghost.get("spawned", []) if x[0] == "worker"]
        out.append(("hands-the-work-to-exactly-one-worker", z3.BoolVal(len(sp) == 1)))
        if len(sp) == 1:
            a = sp[0][1]
            ai = a[worker_arg].val.t if isinstance(a[worker_arg], VOpt) else a[worker_arg].t
            out.append(("the-worker-gets-the-unit-pulled", ai == gets_item))
            if slot_at_pull:
                out.append(("pull-happens-while-holding-a-worker-slot", z3.BoolVal(bool(st.ghost.get("slot_at_get")))))
            out.append(("the-worker-inherits-the-slot", z3.Or(*[a["req_token"].t == s_ for s_ in st.ghost.get("slots", [])])
                        if st.ghost.get("slots") else z3.BoolVal(False)))
            if len(sp[0]) > 2:
                from contracts.nodes_sl import _ts
                L = st.f["worker_thread_list"]
                out.append(("the-worker-is-listed-and-marked-processing", z3.And(
                    L.len == 1, L.at(z3.IntVal(0)).t == sp[0][2], _ts(st, sp[0][2]) == sc("PROCESSING_STATE")), ("C17",)))
            d = st.f["processing_delay"]
            cs = st.ghost.get("consults", [])
            drawn = z3.Or(d.tag == V.T_GEN, d.tag == V.T_FUNC)
            cnt = z3.Sum([z3.If(z3.And(c_[3], c_[1] == d.oid), 1, 0) for c_ in cs]) if cs else z3.IntVal(0)
            out.append(("processing-delay-drawn-exactly-once", z3.Implies(drawn, cnt == 1)))
            # C08 ("starts processing at the instant it is pulled ... the delay being drawn once per item"): the delay of
            # a unit of work is drawn once that unit has been pulled, not while the node still waits for it (a user
            # source may depend on the time or on what it was asked before)
            late = [c_ for c_ in cs if len(c_) > 4 and c_[4] == 0]
            out.append(("processing-delay-drawn-for-the-unit-just-pulled", z3.And(*[
                z3.Not(z3.And(c_[3], c_[1] == d.oid)) for c_ in late]) if late else z3.BoolVal(True), ("C08",)))

    # ---------------------------------------------------------------- Splitter.behaviour
    sb_fields = ACC + ("in_edge_events", "chosen_event", "pallet_in_process", "item_in_process", "stats.processing_delay",
                       "stats.in_edge_selection")

    def s_head(ex, st, mode):
        return common_head(st, ("in", "out")) + edges_assumptions(st, "in_edges")

    def s_back(ex, head_f, st):
        gets = st.ghost.get("gets", [])
        out = []
        if not gets:
            out.append(("no-worker-without-a-pallet", z3.BoolVal(len([x for x in st.ghost.get("spawned", []) if x[0] == "worker"]) == 0)))
            return out
        out.append(("pulls-exactly-one-pallet-per-round", z3.BoolVal(len(gets) == 1)))
        spawn_obligations(st, head_f, out, gets[0][0], "pallet", True)
        H0, H1 = head_f["stats.in_edge_selection"], st.f["stats.in_edge_selection"]
        ie = st.f["in_edges"].val
        out.append(("in-edge-recorded-truthfully", z3.And(
            H1.len == H0.len + 1, 0 <= H1.at(H0.len).t, H1.at(H0.len).t < ie.len,
            gets[0][1] == store_of_edge(st, ie.at(H1.at(H0.len).t).t))))
        return out
    sb = FnContract(
        "behaviour", [], is_generator=True, uses_inv=False, keeps_inv=False,
        entry_assume=lambda st, args: edges_assumptions(st, "in_edges") + edges_assumptions(st, "out_edges") + [
            ("start", z3.And(st.f["worker_thread_list"].len == 0, st.f["num_workers"].t == 0,
                             st.f["time_per_work_occupancy"].len == st.f["work_capacity"].t + 1,
                             st.f["time_last_occupancy_change"].t <= st.now, st.f["pallet_in_process"].isnone,
                             st.f["item_in_process"].isnone, state_known(st)))] + acc_clauses(st) + act_clauses(st),
        excs=[ExcCase("AssertionError", lambda c: z3.BoolVal(True), "start-up-or-user-value-rejected", unchanged=False, props=("C20",), may=True),
              ExcCase("ValueError", lambda c: z3.BoolVal(True), "start-up-rejected", unchanged=False, props=("C20",), may=True),
              ExcCase("TypeError", lambda c: z3.BoolVal(True), "user-value-not-a-number", unchanged=False, props=("C20",), may=True)],
        props=("C03", "C06", "C08", "C10", "C15", "C17", "C20"))
    sb.has_normal_exit = False
    sb.no_frame = True
    sb.shared_fields = ACC
    sb.rely = brely
    sb.guarantee = lambda st: acc_clauses(st) + act_clauses(st)
    sb.nshards = 8
    sb.loops = {0: ProcLoop(lib, "Splitter", sb_fields, back=s_back, head=s_head, props=("C03", "C08", "C10", "C15"),
                            heaps=("thread_state", "selector_kind"),
                            assume_only=lambda st: [("A-sources", z3.And(st.f["processing_delay"].oid != st.f["in_edge_selection"].oid,
                                                                          st.f["processing_delay"].oid != st.f["out_edge_selection"].oid))]),
                1: IndexMatchLoop("in_edge_events"),
                2: CancelLoop(lambda st: st.f["chosen_event"].val.t)}
    C["Splitter"]["behaviour"] = sb

    # ---------------------------------------------------------------- Combiner.behaviour
    cb_fields = ACC + ("pallet_in_process", "item_in_process", "stats.processing_delay", PI)

    def c_head(ex, st, mode):
        out = common_head(st, ("in", "out"))
        out.append(("A-recipe: one non-negative entry per in-edge", z3.And(
            st.f["target_quantity_of_each_item"].len >= st.f["in_edges"].val.len,
            V.forall_idx(st.f["target_quantity_of_each_item"], lambda i, q: q.t >= 0, "qty").inst(logic.fresh_idx("q"))
            if False else z3.BoolVal(True))))
        return out + edges_assumptions(st, "in_edges")

    def c_back(ex, head_f, st):
        out = []
        if not st.ghost.get("consume_head") and not st.ghost.get("gets"):
            out.append(("no-worker-without-a-pallet", z3.BoolVal(len([x for x in st.ghost.get("spawned", []) if x[0] == "worker"]) == 0)))
            return out
        base, N = ex.ctx.fam_base, ex.ctx.fam_total
        # C10 / C16: every ingredient reservation of this round has been used (each added exactly one item, see the
        # consume loop), none is left behind
        out.append(("all-ingredient-reservations-used", Forall(1, lambda k: z3.Implies(
            z3.And(0 <= k, k < N), sel(st, "tok_consumed", base + k)), [N], "all-used")))
        sp = [x for x in st.ghost.get("spawned", []) if x[0] == "worker"]
        out.append(("hands-the-pallet-to-exactly-one-worker", z3.BoolVal(len(sp) == 1)))
        if len(sp) == 1:
            a = sp[0][1]
            ai = a["item"].val.t if isinstance(a["item"], VOpt) else a["item"].t
            out.append(("the-worker-gets-the-pallet-taken-from-the-first-in-edge", ai == ex.ctx.pallet_id))
            out.append(("the-worker-inherits-the-slot", z3.Or(*[a["req_token"].t == s_ for s_ in st.ghost.get("slots", [])])
                        if st.ghost.get("slots") else z3.BoolVal(False)))
        d = st.f["processing_delay"]
        cs = st.ghost.get("consults", [])
        drawn = z3.Or(d.tag == V.T_GEN, d.tag == V.T_FUNC)
        cnt = z3.Sum([z3.If(z3.And(c_[3], c_[1] == d.oid), 1, 0) for c_ in cs]) if cs else z3.IntVal(0)
        out.append(("processing-delay-drawn-exactly-once", z3.Implies(drawn, cnt == 1)))
        return out

    def c_at_yield(ex, ordinal, ynode, value, st):
        # C17 (second sentence): while the node waits for the processing delay of a pallet, the time is charged to
        # PROCESSING_STATE.  The processing timeout is the one whose delay is the value drawn for this pallet.
        d = st.loc.get("next_processing_time")
        if isinstance(value, VTimeout) and d is not None:
            dn = V.as_num(d) if not isinstance(d, VDyn) else Num(d.num)
            if dn.t.eq(value.delay.t) or z3.simplify(dn.t == value.delay.t).eq(z3.BoolVal(True)):
                ex.ctx.oblige("processing-period-is-charged-to-PROCESSING_STATE@L%d" % ynode.lineno, st,
                              [st.f["state"].t == sc("PROCESSING_STATE")], "yield", ynode.lineno, ("C17",))
    cb = FnContract(
        "behaviour", [], is_generator=True, uses_inv=False, keeps_inv=False,
        entry_assume=lambda st, args: edges_assumptions(st, "in_edges") + edges_assumptions(st, "out_edges") + [
            ("start", z3.And(st.f["worker_thread_list"].len == 0, st.f["num_workers"].t == 0,
                             st.f["time_per_work_occupancy"].len == st.f["work_capacity"].t + 1,
                             st.f["time_last_occupancy_change"].t <= st.now, st.f["pallet_in_process"].isnone,
                             st.f["item_in_process"].isnone, state_known(st))),
            ("A-recipe: one non-negative entry per in-edge", z3.And(
                st.f["target_quantity_of_each_item"].len >= st.f["in_edges"].val.len)),
            ("A-recipe.nonneg", V.forall_idx(st.f["target_quantity_of_each_item"], lambda i, q: q.t >= 0, "qty"))] + acc_clauses(st) + act_clauses(st),
        excs=[ExcCase("AssertionError", lambda c: z3.BoolVal(True), "start-up-or-user-value-rejected", unchanged=False, props=("C20",), may=True),
              ExcCase("ValueError", lambda c: z3.BoolVal(True), "start-up-rejected", unchanged=False, props=("C20",), may=True),
              ExcCase("TypeError", lambda c: z3.BoolVal(True), "user-value-not-a-number", unchanged=False, props=("C20",), may=True),
              ExcCase("RuntimeError", lambda c: z3.BoolVal(True), "wrong-flow-item-type-on-an-in-edge", unchanged=False,
                      props=("C16", "C20"), may=True)],
        props=("C03", "C08", "C10", "C16", "C17", "C20"))
    cb.has_normal_exit = False
    cb.no_frame = True
    cb.shared_fields = ACC
    cb.rely = brely
    cb.guarantee = lambda st: acc_clauses(st) + act_clauses(st)
    cb.at_yield = c_at_yield
    cb.nshards = 8
    cb.loops = {0: ProcLoop(lib, "Combiner", cb_fields, back=c_back, head=c_head, props=("C03", "C08", "C10", "C16"),
                            heaps=("thread_state", "selector_kind", "flow_item_type"),
                            assume_only=lambda st: s_axioms(cb.S, st.f["target_quantity_of_each_item"], st.f["in_edges"].val.len) + [
                                ("A-recipe: one non-negative entry per in-edge", z3.And(
                                    st.f["target_quantity_of_each_item"].len >= st.f["in_edges"].val.len)),
                                ("A-recipe.nonneg", V.forall_idx(st.f["target_quantity_of_each_item"], lambda i, q: q.t >= 0, "qty"))]),
                1: RecipeOuterLoop(False), 2: RecipeOuterLoop(True), 3: RecipeConsumeLoop()}
    cb.S = _S()
    cb.prepare = lambda ex: (setattr(ex.ctx, "recipe_S", cb.S), None)
    C["Combiner"]["behaviour"] = cb


# ---------------------------------------------------------------------------
# Combiner.behaviour: recipe loops


def _S():
    """prefix sums of the recipe: S(1) = 0, S(e+1) = S(e) + target_quantity_of_each_item[e]  (uninterpreted, unfolded
    at the loop variables)"""
    return z3.Function("recipe_prefix_sum", z3.IntSort(), z3.IntSort())


def s_axioms(S, qty, n):
    """definition of the ghost prefix-sum function (assumed: it is a definition, not a fact about the code)"""
    return [("S-base", S(1) == 0),
            ("S-def", Forall(1, lambda k: z3.Implies(z3.And(1 <= k, k < n), z3.And(
                S(k + 1) == S(k) + qty.at(k).t, S(k) >= 0, S(k + 1) >= 0)), [n], "S-def"))]


def fam_facts(st, toks, indx, base, S, qty, nedges, upto=None):
    """facts about the reservation tokens collected so far (toks[j] has identity base+j and sits on in-edge indx[j])"""
    L = toks.len
    ie = st.f["in_edges"].val
    out = [("lists-parallel", z3.And(L == indx.len, L >= 0)),
           ("token-identities-are-consecutive", Forall(1, lambda j: z3.Implies(z3.And(0 <= j, j < L), toks.at(j).t == base + j), [L], "ids")),
           ("tokens-are-fresh-retrieval-requests-of-this-process", Forall(1, lambda j: z3.Implies(z3.And(0 <= j, j < L), z3.And(
               z3.Not(sel(st, "tok_consumed", base + j)), sel(st, "tok_kind", base + j) == GET,
               sel(st, "requesting_process", base + j) == st.active,
               1 <= indx.at(j).t, indx.at(j).t < nedges,
               sel(st, "resourcename", base + j) == store_of_edge(st, ie.at(indx.at(j).t).t),
               S(indx.at(j).t) <= j, j < S(indx.at(j).t + 1))), [L], "family"))]
    return out


class RecipeOuterLoop:
    """for edge_idx in range(1, len(self.in_edges)): after e-1 rounds exactly S(e) tokens have been reserved, the ones with
    positions S(k)..S(k+1)-1 on in-edge k (so exactly target_quantity_of_each_item[k] on in-edge k: statement C16)."""
    variant = None
    props = ("C16", "C10")

    def __init__(self, inner=False):
        self.inner = inner

    def havoc(self, ex, st, node, ordinal):
        tag = "lh%s" % _n()
        for nm, ek in (("reservation_tokens", ("obj", "event")), ("reservation_indx", ("num", "int"))):
            st.loc[nm] = V.mk_base_list("%s.%s" % (tag, nm), ek)
        for h in ("triggered", "tok_consumed", "tok_kind", "requesting_process", "resourcename"):
            st.heap_arr(h)
            st.havoc_heap(h, tag)
        nid = z3.Int(tag + ".next_id")
        st.next_id = nid
        st.loc["__i%d" % ordinal] = Num(z3.Int(tag + ".i"))
        logic.REG.index_consts.add(tag + ".i")
        # locals assigned somewhere in this loop are dead at its head (each is assigned before use in a round)
        for n_ in ast.walk(node):
            if isinstance(n_, ast.Name) and isinstance(n_.ctx, ast.Store) and n_.id not in ("reservation_tokens", "reservation_indx"):
                st.loc[n_.id] = None
        st.ghost["epoch"] = st.ghost.get("epoch", 0) + 1

    def inv(self, ex, entry, st, mode):
        S = ex.ctx.recipe_S
        if entry is st and not self.inner:
            # loop entry: the family of ingredient reservations starts with the next identity to be allocated;
            # the pallet of this round is the (only) item pulled so far
            ex.ctx.fam_base = st.next_id
            g = st.ghost.get("gets", [])
            ex.ctx.pallet_id = g[-1][0] if g else z3.IntVal(-1)
        base = ex.ctx.fam_base
        qty = st.f["target_quantity_of_each_item"]
        n = st.f["in_edges"].val.len
        toks, indx = st.loc["reservation_tokens"], st.loc["reservation_indx"]
        if toks.ekind == ("any",):
            toks = V.list_empty(("obj", "event"))
        if indx.ekind == ("any",):
            indx = V.list_empty(("num", "int"))
        ordk = sorted((k for k in st.loc if re.match(r"__i\d+$", k)), key=lambda k: int(k[3:]))
        out = []
        if not self.inner:
            i = st.loc[ordk[-1]].t if not isinstance(st.loc.get("edge_idx"), Num) or True else None
            i = st.loc["__i1"].t
            e = 1 + i
            out += [("outer-index-range", z3.And(0 <= i, i <= z3.If(n - 1 < 0, 0, n - 1))),
                    ("reserved-so-far", toks.len == S(e))]
        else:
            i2 = st.loc["__i2"].t
            e = st.loc["edge_idx"].t
            q = st.loc["qty"].t
            out += [("inner-index-range", z3.And(0 <= i2, i2 <= z3.If(q < 0, 0, q))),
                    ("edge-index-range", z3.And(1 <= e, e < n)),
                    ("quantity-is-the-recipe-entry", q == qty.at(e).t),
                    ("reserved-so-far", toks.len == S(e) + i2)]
            out.append(("S-unfold", S(e + 1) == S(e) + qty.at(e).t))
        out.append(("next-id", st.next_id == base + toks.len))
        if mode == "assume":
            out += s_axioms(S, qty, n)
        out += fam_facts(st, toks, indx, base, S, qty, n)
        # tokens older than this family keep their attributes
        for h in ("tok_consumed", "triggered", "tok_kind", "requesting_process", "resourcename"):
            a0, a1 = entry.heap_arr(h), st.heap_arr(h)
            out.append(("older-objects-untouched." + h, Forall(1, lambda t, a0=a0, a1=a1: z3.Implies(
                t < base, z3.Select(a1, t) == z3.Select(a0, t)), [base], "frame")))
        return out


class RecipeConsumeLoop:
    """while len(reservation_tokens) > 0: take the first triggered token, get its item from its edge, add it to the pallet,
    drop token and index from the two parallel lists."""
    variant = None
    props = ("C16", "C10", "C03")

    def havoc(self, ex, st, node, ordinal):
        tag = "lh%s" % _n()
        ex.ctx.fam_total = st.loc["reservation_tokens"].len
        for nm, ek in (("reservation_tokens", ("obj", "event")), ("reservation_indx", ("num", "int"))):
            st.loc[nm] = V.mk_base_list("%s.%s" % (tag, nm), ek)
        for h in ("triggered", "tok_consumed", "timestamp_node_entry", "timestamp_node_exit"):
            st.heap_arr(h)
            st.havoc_heap(h, tag)
        st.now = z3.Real(tag + ".now")
        nid = z3.Int(tag + ".next_id")
        st.pc.append(nid >= st.next_id)
        st.next_id = nid
        st.f["item_in_process"] = _fresh_like(st.f["item_in_process"], tag + ".iip")
        if PI in st.f:
            st.f[PI] = _fresh_like(st.f[PI], tag + ".pi")
        # the body waits: the node's other processes may have changed the shared accounting fields meanwhile
        for fname in getattr(ex.ctx.con, "shared_fields", ()):
            if fname in st.f:
                st.f[fname] = _fresh_like(st.f[fname], "%s.%s" % (tag, fname))
        for nm in ("triggered_events_sum", "chosen_get_event", "token_index", "edge_index"):
            st.loc[nm] = None
        st.loc["triggered_events"] = VOpaque("any_of")
        for k in ("gets", "packed"):
            st.ghost[k] = []
        st.ghost["epoch"] = st.ghost.get("epoch", 0) + 1
        st.ghost["consume_head"] = True

    def inv(self, ex, entry, st, mode):
        base = ex.ctx.fam_base
        S = ex.ctx.recipe_S
        n = st.f["in_edges"].val.len
        ie = st.f["in_edges"].val
        toks, indx = st.loc["reservation_tokens"], st.loc["reservation_indx"]
        N = entry.loc["reservation_tokens"].len if isinstance(entry.loc.get("reservation_tokens"), SList) else None
        orig_indx = entry.loc["reservation_indx"]
        L = toks.len
        out = [("lists-parallel", z3.And(L == indx.len, L >= 0, L <= N)),
               ("remaining-tokens-in-reservation-order", Forall(2, lambda i, j: z3.Implies(
                   z3.And(0 <= i, i < j, j < L), toks.at(i).t < toks.at(j).t), [L, L], "sorted")),
               ("remaining-tokens-are-unused-family-members", Forall(1, lambda j: z3.Implies(z3.And(0 <= j, j < L), z3.And(
                   base <= toks.at(j).t, toks.at(j).t < base + N,
                   z3.Not(sel(st, "tok_consumed", toks.at(j).t)), sel(st, "tok_kind", toks.at(j).t) == GET,
                   sel(st, "requesting_process", toks.at(j).t) == st.active,
                   indx.at(j).t == orig_indx.at(toks.at(j).t - base).t,
                   1 <= indx.at(j).t, indx.at(j).t < n,
                   sel(st, "resourcename", toks.at(j).t) == store_of_edge(st, ie.at(indx.at(j).t).t))), [L], "members")),
               ("time-nonneg", st.now >= 0)]
        rel = getattr(ex.ctx.con, "rely", None)
        if rel:
            out += [("shared." + x[0], x[1]) for x in rel(st, st)]
        # every family token that has not been used yet is still in the list (so an empty list means all were used)
        if mode == "assume":
            posf = z3.Function("pos_in_remaining!%s" % _n(), z3.IntSort(), z3.IntSort())
            out.append(("unused-family-members-are-listed", Forall(1, lambda k: z3.Implies(
                z3.And(0 <= k, k < N, z3.Not(sel(st, "tok_consumed", base + k))),
                z3.And(0 <= posf(k), posf(k) < L, toks.at(posf(k)).t == base + k)), [N], "listed")))
        else:
            out.append(("unused-family-members-are-listed", logic.ForallExists(
                lambda k: z3.And(0 <= k, k < N, z3.Not(sel(st, "tok_consumed", base + k))),
                lambda k, j: z3.And(0 <= j, j < L, toks.at(j).t == base + k), L, "listed")))
        a0, a1 = entry.heap_arr("tok_consumed"), st.heap_arr("tok_consumed")
        out.append(("other-tokens-untouched", Forall(1, lambda t: z3.Implies(z3.Or(t < base, t >= base + N),
                                                                               z3.Select(a1, t) == z3.Select(a0, t)), [base], "frame")))
        out.append(("pallet-in-hand", z3.Not(st.f["pallet_in_process"].isnone)))
        if PI in st.f:
            out.append(("pallet-content", st.f[PI].len >= 0))
        if mode == "prove" and entry is not st:
            gets = st.ghost.get("gets", [])
            packed = st.ghost.get("packed", [])
            out.append(("takes-exactly-one-item-per-round", z3.BoolVal(len(gets) == 1)))
            out.append(("adds-exactly-that-item-to-the-pallet", z3.BoolVal(len(packed) == 1) if len(gets) != 1 else z3.And(
                z3.BoolVal(len(packed) == 1), *([packed[0][0] == gets[0][0], packed[0][1] == st.f["pallet_in_process"].val.t]
                                                if len(packed) == 1 else []))))
        return out
