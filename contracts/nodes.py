"""contracts.nodes -- sidecar contracts for the node classes (Node, Source, Sink, Machine, Splitter, Combiner),
the edge selectors in utils/utils.py and the flow-item helpers.

Straight-line functions are verified against value-level contracts.  Process bodies (generators) are verified
against the ABSTRACT EDGE INTERFACE (see `EdgeModel` below): tokens and items are linear ghost resources, every
`yield` is a cut point with a rely, and the obligations are the per-item facts the properties demand
(every item is put exactly once or discarded and counted, every reservation is used or cancelled, the edge used is
the recorded one, ...).
"""
import z3
from pyvc import values as V
from pyvc import logic
from pyvc.logic import Forall, Exists
from pyvc.state import State, HEAP_SCHEMA
from pyvc.contract import FnContract, Def, DefHeap, DefRes, Clause, ExcCase, Structural, apply_contract, PostCtx
from pyvc.execute import (Exc, Outcome, FieldRef, Exec, SelfRef, EnvRef, VTimeout, VGen, VAnyOf, VPyList, RecRef)
from pyvc.values import Num, VObj, VBool, VStr, VOpaque, VNone, NONE, SList, Unsupported, VDyn, VOpt, VTuple
from pyvc.lib_base import LibBase

EDGE = ("obj", "edge")
EV = ("obj", "event")
IT = ("obj", "item")
PROC = ("obj", "proc")

HEAP_SCHEMA.update({
    "tok_consumed": ("bool",), "tok_edge": ("obj", "edge"), "tok_kind": ("num", "int"),
    "tok_bound": ("obj", "item"), "edge_cls": ("str",), "edge_store": ("obj", "store"),
    "item_in_pallet": ("obj", "item"), "flow_item_type": ("str",), "item_to_put": ("obj", "item"),
    "res_users": ("num", "int"), "res_capacity": ("num", "int"), "item_id": ("obj", "idval"),
})

MSTATES = ["SETUP_STATE", "IDLE_STATE", "ATLEAST_ONE_PROCESSING_STATE", "ALL_ACTIVE_BLOCKED_STATE",
           "ALL_ACTIVE_PROCESSING_STATE", "ATLEAST_ONE_BLOCKED_STATE"]
TT = "stats.total_time_spent_in_states."

PROFILES = {
    "Node": dict(file="nodes/node.py", cls="Node"),
    "Machine": dict(file="nodes/machine.py", cls="Machine", states=MSTATES),
    "Source": dict(file="nodes/source.py", cls="Source", states=["SETUP_STATE", "GENERATING_STATE", "BLOCKED_STATE"]),
    "Sink": dict(file="nodes/sink.py", cls="Sink", states=["COLLECTING_STATE"]),
    "Splitter": dict(file="nodes/splitter.py", cls="Splitter",
                     states=["SETUP_STATE", "IDLE_STATE", "PROCESSING_STATE", "BLOCKED_STATE"]),
    "Combiner": dict(file="nodes/combiner.py", cls="Combiner",
                     states=["SETUP_STATE", "IDLE_STATE", "PROCESSING_STATE", "BLOCKED_STATE"]),
    "utils": dict(file="utils/utils.py", cls=None),
    "BaseFlowItem": dict(file="helper/baseflowitem.py", cls="BaseFlowItem"),
    "Pallet": dict(file="helper/pallet.py", cls="Pallet"),
    "Item": dict(file="helper/item.py", cls="Item"),
}


def _n():
    return logic.fresh("n").decl().name().split("!")[1]


class NodeLib(LibBase):
    def __init__(self):
        super().__init__()
        self.contracts = {k: {} for k in PROFILES}
        from contracts import nodes_sl, nodes_proc, nodes_utils
        nodes_sl.install(self)
        nodes_proc.install(self)
        nodes_utils.install(self)
        from contracts import nodes_init
        nodes_init.install(self)
        for fn, con in self.contracts["utils"].items():
            if con is not None and con.is_generator:
                self.globals[fn] = V.VFunc("utils." + fn)

    def classes(self):
        return [k for k in PROFILES if self.contracts[k]]

    def profile(self, cls):
        return PROFILES[cls]

    def unit_props(self, cls, fn):
        return set(self.contracts[cls][fn].props) | {"C20"}

    def shards(self, cls, fn):
        return getattr(self.contracts[cls][fn], "nshards", 1)

    def chi(self, cls, name, old, args):
        from contracts import nodes_proc
        return nodes_proc.chi(self, cls, name, old, args)

    # ------------------------------------------------------------------ state
    def schema(self, cls):
        p = PROFILES[cls]
        f = {}
        if cls == "Pallet":
            return dict(self.schema("BaseFlowItem"), items=("list", IT), flow_item_type=("str",))
        if cls == "Item":
            return dict(self.schema("BaseFlowItem"), flow_item_type=("str",))
        if cls == "BaseFlowItem":
            return {"timestamp_creation": ("opt", ("num", "real")), "source_id": ("obj", "nodeid"),
                    "timestamp_node_entry": ("opt", ("num", "real")), "timestamp_node_exit": ("opt", ("num", "real")),
                    "current_node_id": ("opt", ("obj", "nodeid")), "stats": ("opaque",)}
        if cls == "utils":
            return f
        f.update({"id": ("obj", "nodeid"), "node_setup_time": ("num", "real"),
                  "in_edges": ("opt", ("list", EDGE)), "out_edges": ("opt", ("list", EDGE)),
                  "stats.last_state_change_time": ("opt", ("num", "real"))})
        if cls == "Node":
            f["state"] = ("opt", ("str",))
            return f
        for s_ in p["states"]:
            f[TT + s_] = ("num", "real")
        if cls != "Machine":
            f["state"] = ("str",)
        if cls in ("Machine", "Splitter", "Combiner", "Source"):
            f["blocking"] = ("bool",)
            f["out_edge_selection"] = ("dyn",)
            f["stats.num_item_discarded"] = ("num", "int")
        if cls in ("Machine", "Splitter", "Combiner"):
            f.update({"work_capacity": ("num", "int"), "processing_delay": ("dyn",),
                      "per_thread_total_time_in_blocked_state": ("num", "real"),
                      "per_thread_total_time_in_processing_state": ("num", "real"),
                      "worker_thread_list": ("list", PROC), "num_workers": ("num", "int"),
                      "time_last_occupancy_change": ("num", "real"), "worker_thread": ("obj", "resource"),
                      "time_per_work_occupancy": ("list", ("num", "real")),
                      "stats.num_item_processed": ("num", "int"), "stats.processing_delay": ("list", ("num", "real")),
                      "stats.in_edge_selection": ("list", ("num", "int")), "stats.out_edge_selection": ("list", ("num", "int")),
                      "item_in_process": ("opt", IT)})
        if cls in ("Machine", "Splitter"):
            f["in_edge_selection"] = ("dyn",)
            f["in_edge_events"] = ("list", EV)
            f["chosen_event"] = ("opt", EV)
        if cls == "Machine":
            f.update({"state_rep": ("opt", ("tuple", [("num", "int"), ("num", "int")])),
                      "total_time_all_blocked": ("num", "real"), "total_time_all_processing": ("num", "real"),
                      "total_time_atleast_one_blocked": ("num", "real"),
                      "total_time_atleast_one_processing": ("num", "real"), "total_time_idle": ("num", "real"),
                      "total_time_setup": ("num", "real")})
        if cls == "Splitter":
            f.update({"pallet_in_process": ("opt", IT), "mode": ("str",), "__pallet_items": ("list", IT)})
        if cls == "Combiner":
            f.update({"pallet_in_process": ("opt", IT), "target_quantity_of_each_item": ("list", ("num", "int")),
                      "__pallet_items": ("list", IT)})
        if cls == "Source":
            f.update({"item_length": ("num", "real"), "flow_item_type": ("str",), "inter_arrival_time": ("dyn",),
                      "stats.num_item_generated": ("num", "int"), "out_edge_events": ("list", EV)})
        if cls == "Sink":
            f.update({"stats.num_item_received": ("num", "int"), "stats.total_cycle_time": ("num", "real"),
                      "in_edge_events": ("list", EV), "chosen_event": ("opt", EV), "item_in_process": ("opt", IT),
                      "buffertime": ("num", "int"), "item_list": ("opaque",)})
        return f

    def initial_state(self, cls, fname, con):
        st = State()
        st.now = z3.Real("now")
        st.active = z3.Int("active_process")
        st.next_id = z3.Int("next_id")
        st.assume(st.now >= 0)
        st.assume(st.next_id >= 0)
        if not con.is_init:
            for nm, kind in self.schema(cls).items():
                st.f[nm] = V.mk_value("s0." + nm, kind)
        st.ghost["cls"] = cls
        return st

    def validity(self, cls, st, con):
        out = []
        if con.is_init:
            return out
        for nm, v in st.f.items():
            if isinstance(v, VDyn):
                out.append(("valid.dyn." + nm, v.well_formed()))
            if isinstance(v, SList):
                out.append(("valid.len." + nm, v.len >= 0))
            if isinstance(v, VOpt) and isinstance(v.val, SList):
                out.append(("valid.len." + nm, v.val.len >= 0))
        if "node_setup_time" in st.f:
            out.append(("valid.setup-time", st.f["node_setup_time"].t >= 0))
        if "work_capacity" in st.f:
            out.append(("valid.work-capacity", st.f["work_capacity"].t >= 1))
        extra = getattr(con, "validity", None)
        if extra:
            out += extra(st)
        return out

    def invariant(self, cls, st, side="prove"):
        from contracts import nodes_sl
        return nodes_sl.invariant(self, cls, st, side)

    def bind_params(self, cls, fname, fnode, con, st):
        args = {}
        for (nm, kind, default) in con.params:
            if nm in getattr(con, "argmap", {}):
                nm2 = con.argmap[nm]
                args[nm2] = args[nm] = V.mk_value("arg." + nm, kind)
                continue
            if kind[0] == "env":
                args[nm] = EnvRef()
            elif kind[0] == "self":
                args[nm] = SelfRef()
            else:
                args[nm] = V.mk_value("arg." + nm, kind)
                if kind[0] == "dyn":
                    st.assume(args[nm].well_formed())
        return args

    def frame(self, cls, con, old, new):
        if getattr(con, "no_frame", False):
            return []
        from pyvc.contract import unchanged_clauses
        fields = [f for f in old.f if f not in con.modifies and not any(f.startswith(m) for m in con.modifies if m.endswith("."))]
        heaps = [h for h in old.h if h.split("?")[0].split("#")[0] not in con.heap_modifies]
        if getattr(con, "frame_fields_only", False):
            heaps = []
        return unchanged_clauses(self, cls, old, new, fields, heaps)

    def len_terms(self, st):
        out = []
        for v in st.f.values():
            if isinstance(v, SList):
                out.append(v.len)
            elif isinstance(v, VOpt) and isinstance(v.val, SList):
                out.append(v.val.len)
        return out

    def model_to_json(self, st, m, ob):
        from contracts.stores import dump_state
        old = getattr(ob.ctx, "old", None)
        try:
            from contracts.stores import dump_value
            args = getattr(ob.ctx, "args", None) or {}
            return {"entry": dump_state(self, old, m) if old is not None else None, "exit": dump_state(self, st, m),
                    "args": {k: dump_value(v, m) for k, v in args.items() if isinstance(v, V.Value)}}
        except Exception as e:
            return {"error": repr(e)}

    def call_func(self, ex, fv, args, st, node):
        """a module-level generator function of utils/utils.py taken from a table: calling it creates the generator"""
        if fv.name.startswith("utils."):
            name = fv.name[len("utils."):]
            con = self.contracts["utils"].get(name)
            if con is not None and con.is_generator:
                from pyvc.execute import VGen
                amap = {}
                for k, (pn, kind, default) in enumerate(con.params):
                    if k < len(args):
                        amap[pn] = args[k]
                return [(VGen(name, amap), st)]
        return None

    def member(self, ex, x, lst, st, lineno):
        # a dictionary outside the modelled state (the per-node statistics of a flow item): membership unconstrained
        if isinstance(lst, V.VOpaque):
            b = z3.Bool("opaque_member!%s" % _n())
            return [(bb, s, None) for bb, s in ex.branch(st, b, lineno)]
        return None

    def loop_invs(self, cls, fname):
        con = self.contracts[cls].get(fname)
        return getattr(con, "loops", {}) if con else {}

    def yield_spec(self, cls, fname, con, old, args):
        if con.is_generator:
            from contracts import nodes_proc
            cy = getattr(con, "custom_yields", None)
            if cy:
                return cy(self, cls, con, old, args)
            return nodes_proc.Yields(self, cls, con, old, args)
        return None

    def finish_outcomes(self, ex, cls, fname, con, outcomes):
        fin = getattr(con, "finish", None)
        return fin(ex, outcomes) if fin else outcomes

    # ------------------------------------------------------------------ executor hooks (delegated)
    def is_method(self, cls, attr):
        return attr in self.contracts.get(cls, {}) or attr in self.contracts["Node"]

    def optional_fields(self, cls):
        return ("in_edge_events", "chosen_event", "out_edge_events")

    def may_create(self, cls, attr):
        return attr in self.schema(cls)

    def get_attr_env(self):
        return None

    def call_self(self, ex, name, args, kw, st, lineno):
        cls = ex.ctx.cls
        con = self.contracts[cls].get(name) or self.contracts["Node"].get(name)
        if con is None:
            if name in st.f and isinstance(st.f[name], VDyn):
                return self.consult(ex, st.f[name], "call", st, _Line(lineno))
            r = self.inline_accessor(ex, name, args, kw, st, lineno)
            if r is not None:
                return r
            raise Unsupported("call to self.%s() which has no contract (line %d)" % (name, lineno))
        amap = {}
        for k, (pn, kind, default) in enumerate(con.params):
            if k < len(args):
                amap[pn] = args[k]
            elif pn in kw:
                amap[pn] = kw[pn]
            elif default is not None:
                amap[pn] = default
            else:
                raise Unsupported("missing argument %s for %s" % (pn, name))
        if con.is_generator:
            return [(VGen(name, amap), st)]
        outs = apply_contract(ex, con, amap, st, lineno, self, cls)
        if name == "update_state_rep" and cls == "Machine":
            # ghost for I-fresh (C17): remember the worker list and the thread states this recount has seen
            for r in outs:
                s1 = r[1] if isinstance(r, tuple) else getattr(r, "state", None)
                if s1 is not None and not isinstance(r[0] if isinstance(r, tuple) else None, Exc):
                    s1.ghost["rep_base"] = (s1.heap_arr("thread_state"), s1.f["worker_thread_list"], s1.ghost.get("seg_id", 0))
        return outs

    def consult(self, ex, dyn, how, st, node):
        s = st.fork()
        r = VDyn("draw!%s" % _n())
        s.assume(r.well_formed())
        s.ghost.setdefault("consults", []).append((how, dyn.oid, r, z3.BoolVal(True)))
        return [(r, s)]

    def call_super(self, ex, name, args, st, lineno):
        con = self.contracts["BaseFlowItem" if ex.ctx.cls in ("Item", "Pallet") else "Node"]["__init__"]
        names = [p[0] for p in con.params]
        amap = {}
        for k, a in enumerate(args):
            amap[names[k]] = a
        for (pn, kind, default) in con.params:
            if pn not in amap:
                amap[pn] = default
        return apply_contract(ex, con, amap, st, lineno, self, ex.ctx.cls)

    def isinstance_other(self, ex, v, names, st):
        if isinstance(v, EnvRef):
            return VBool("Environment" in names)
        if isinstance(v, VObj) and v.kind == "item" and "Process" in names:
            return VBool(False)
        if isinstance(v, VOpt):
            return VBool(False) if isinstance(v.val, VObj) and "Process" in names else None
        if isinstance(v, VBool) and "Process" in names:
            return VBool(False)
        return None

    def has_attr(self, ex, v, name, st):
        from contracts import nodes_proc
        return nodes_proc.has_attr(self, ex, v, name, st)

    def reduce_genexp(self, ex, name, node, st):
        from contracts import nodes_sl
        return nodes_sl.reduce_genexp(self, ex, name, node, st)

    def builtin(self, ex, name, args, kw, st, node):
        from contracts import nodes_sl
        return nodes_sl.builtin(self, ex, name, args, kw, st, node)

    def call_env(self, ex, name, args, kw, st, node):
        from contracts import nodes_proc
        return nodes_proc.call_env(self, ex, name, args, kw, st, node)

    def call_obj(self, ex, base, name, args, kw, st, node):
        from contracts import nodes_proc
        return nodes_proc.call_obj(self, ex, base, name, args, kw, st, node)

    def obj_attr(self, ex, base, attr, st, lineno):
        from contracts import nodes_proc
        return nodes_proc.obj_attr(self, ex, base, attr, st, lineno)

    def set_obj_attr(self, ex, base, attr, v, st, lineno):
        from contracts import nodes_proc
        return nodes_proc.set_obj_attr(self, ex, base, attr, v, st, lineno)

    def listcomp(self, ex, node, st):
        from contracts import nodes_proc
        return nodes_proc.listcomp(self, ex, node, st)

    def call_opaque(self, ex, base, name, args, kw, st, node):
        from contracts import nodes_sl
        return nodes_sl.call_opaque(self, ex, base, name, args, kw, st, node)

    def get_attr_other(self, ex, base, attr, st, lineno):
        from contracts import nodes_proc
        return nodes_proc.get_attr_other(self, ex, base, attr, st, lineno)

    def call_other(self, ex, base, name, args, kw, st, node):
        from contracts import nodes_proc
        return nodes_proc.call_other(self, ex, base, name, args, kw, st, node)

    def set_self_attr(self, ex, attr, v, st, lineno):
        if attr == "env" and isinstance(v, EnvRef):
            return [Outcome("next", st)]
        if attr == "time_last_occupancy_change" and ex.ctx.fname not in ("__init__", "_update_worker_occupancy"):
            # C17 (the occupancy histogram adds up to T): the occupancy clock moves only inside _update_worker_occupancy,
            # which charges the interval it skips to the bin of the current occupancy; a write anywhere else would let
            # time pass uncharged
            ex.ctx.oblige("occupancy-clock-advanced-only-together-with-its-histogram@L%d" % lineno, st, [z3.BoolVal(False)],
                          "frame", lineno, ("C17",))
        from pyvc.execute import VDict
        if isinstance(v, VDict):
            # record literal: one field per (nested) constant key that the schema knows
            states = [st]
            for k, x in v.items.items():
                nxt = []
                for s0 in states:
                    r = self.set_self_attr(ex, attr + "." + k, x, s0, lineno)
                    if r is None:
                        if (attr + "." + k) in self.schema(ex.ctx.cls):
                            s0.f[attr + "." + k] = x
                        nxt.append(s0)
                    else:
                        nxt.extend(o.state for o in r)
                states = nxt
            return [Outcome("next", s0) for s0 in states]
        sch = self.schema(ex.ctx.cls)
        if attr in sch and sch[attr][0] == "num" and isinstance(v, Num) and sch[attr][1] == "real" and v.is_int:
            st.f[attr] = Num(z3.ToReal(v.t))
            return [Outcome("next", st)]
        if attr in sch and sch[attr][0] == "num" and isinstance(v, VDyn):
            st.f[attr] = Num(z3.ToInt(v.num)) if sch[attr][1] == "int" else Num(v.num)
            return [Outcome("next", st)]
        if attr in sch and sch[attr][0] == "str" and isinstance(v, VDyn):
            st.f[attr] = VStr(z3.If(v.tag == V.T_STR, v.s, -1000 - v.tag))
            return [Outcome("next", st)]
        if attr in sch and sch[attr][0] == "bool" and isinstance(v, VDyn):
            st.f[attr] = VBool(V.truth(v))
            return [Outcome("next", st)]
        if attr not in sch and not any(k.startswith(attr + ".") for k in sch):
            if ex.ctx.fname == "__init__":
                return [Outcome("next", st)]       # attribute outside the modelled state (bookkeeping only)
            if isinstance(v, VObj) and v.kind == "proc":
                return [Outcome("next", st)]       # a handle on a started process kept for later: bookkeeping only
        if isinstance(v, SList) and v.ekind == ("any",) and V.is_literally_empty(v) and attr in sch:
            kind = sch[attr]
            if kind[0] == "list":
                st.f[attr] = V.list_empty(kind[1])
                return [Outcome("next", st)]
            if kind[0] == "opt" and kind[1][0] == "list":
                st.f[attr] = VOpt(z3.BoolVal(False), V.list_empty(kind[1][1]))
                return [Outcome("next", st)]
        if attr in sch and sch[attr][0] == "opt" and not isinstance(v, (VOpt, VNone)):
            if isinstance(v, FieldRef):
                v = st.f[v.name]
            st.f[attr] = VOpt(z3.BoolVal(False), v)
            return [Outcome("next", st)]
        if attr in sch and sch[attr][0] == "opt" and isinstance(v, VNone):
            cur = st.f.get(attr)
            dv = cur.val if isinstance(cur, VOpt) else V.mk_value("none." + attr, sch[attr][1])
            st.f[attr] = VOpt(z3.BoolVal(True), dv)
            return [Outcome("next", st)]
        if attr in sch and sch[attr][0] == "dyn" and not isinstance(v, VDyn):
            st.f[attr] = V.dyn_of(v)
            return [Outcome("next", st)]
        return None


class _Line:
    def __init__(self, lineno):
        self.lineno = lineno


def make_lib():
    return NodeLib()
