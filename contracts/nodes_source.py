"""contracts.nodes_source -- Source.behaviour, Source._push_item (and the _push_item contract shared by all nodes)"""
import ast
import z3
from pyvc import values as V
from pyvc import logic
from pyvc.logic import Forall, Exists
from pyvc.contract import FnContract, Def, Clause, ExcCase, Structural, _fresh_like
from pyvc.values import Num, VObj, VBool, VStr, VOpaque, NONE, SList, Unsupported, VDyn, VOpt
from contracts.nodes_proc import sel, sc, tokens_consumed_clauses, put_count, PUT, GET, store_of_edge, oracle
from contracts.nodes_sink import ProcLoop, CancelLoop
from contracts.nodes_sl import FrameLoop

TT = "stats.total_time_spent_in_states."


def _n():
    return logic.fresh("n").decl().name().split("!")[1]


def edge_class_ok(st, e):
    c = sel(st, "edge_cls", e)
    return z3.Or(c == sc("Buffer"), c == sc("Fleet"), c == sc("ConveyorBelt"))


def mk_push_item(lib, cls, stamps_creation):
    """_push_item(item, out_edge): reserve space on out_edge, wait for the grant, hand the item over exactly once."""
    def pre(st, args):
        return [("edge-class-supported", edge_class_ok(st, args["out_edge"].t))]

    def granted_at_reserve(c):
        # was the reservation granted at once?  (after a can_put() == True in the same atomic segment: yes)
        o = c.old
        cur = o.ghost.get("oracle%d" % PUT)
        store = store_of_edge(o, c.args["out_edge"].t)
        if cur is not None and cur[0] == o.ghost.get("epoch", 0):
            return cur[1](store)
        return None

    def post(c):
        item = c.args["item"]
        it = item.val.t if isinstance(item, VOpt) else item.t
        store = store_of_edge(c.old, c.args["out_edge"].t)

        def check_puts(c):
            new = c.new.ghost.get("puts", [])[len(c.old.ghost.get("puts", [])):]
            if len(new) != 1:
                return False
            return z3.And(new[0][0] == it, new[0][1] == store)

        def eff_puts(c):
            c.new.ghost.setdefault("puts", []).append((it, store, 0))

        def check_tokens(c):
            new = c.new.ghost.get("tokens", [])[len(c.old.ghost.get("tokens", [])):]
            return z3.And(*[sel(c.new, "tok_consumed", g[1]) for g in new if g[0] == "one"]) if new else z3.BoolVal(True)

        def check_wait(c):
            g = granted_at_reserve(c)
            ws = c.new.ghost.get("waits", [])[len(c.old.ghost.get("waits", [])):]
            if g is None:
                return True
            return z3.And(*[z3.Implies(g, z3.Not(w[1])) for w in ws if w[1] is not None]) if ws else True

        def eff_wait(c):
            g = granted_at_reserve(c)
            c.new.ghost.setdefault("waits", []).append((0, z3.Bool("waited!%s" % _n()) if g is None else z3.Not(g), "push"))
        items = [Structural("hands-the-item-over-exactly-once-to-that-edge", check_puts, ("C03", "C09"), caller_effect=eff_puts),
                 Structural("its-reservation-is-used", check_tokens, ("C10",)),
                 Structural("no-waiting-when-can_put-was-true", check_wait, ("C09",), caller_effect=eff_wait),
                 Clause("time-does-not-go-back", lambda c: c.new.now >= c.old.now, ("C18",))]
        if stamps_creation:
            items.append(Clause("creation-stamped-at-hand-over", lambda c: z3.And(
                z3.Not(z3.Select(c.new.heap_arr("timestamp_creation?none"), it)),
                z3.Select(c.new.heap_arr("timestamp_creation"), it) == c.new.now), ("C18",)))
        return items
    con = FnContract("_push_item", [("item" if cls == "Source" else "item_to_push", ("obj", "item"), None), ("out_edge", ("obj", "edge"), None)],
                     pre=pre, post=post, is_generator=True, uses_inv=False, keeps_inv=False,
                     heap_modifies=("triggered", "tok_consumed", "tok_kind", "requesting_process", "resourcename",
                                    "timestamp_creation", "timestamp_node_exit", "timestamp_node_entry"),
                     props=("C03", "C09", "C10", "C18"))
    con.advances = True
    con.no_frame = True
    if cls != "Source":
        con.params = [("item_to_push", ("obj", "item"), None), ("out_edge", ("obj", "edge"), None)]
        # contracts refer to the item parameter as "item"
        con.argmap = {"item_to_push": "item"}
    return con


def install(lib):
    C = lib.contracts
    C["Source"]["_push_item"] = mk_push_item(lib, "Source", True)
    install_source(lib)


def edges_assumptions(st, field):
    ie = st.f[field]
    return [("A-edges.%s: distinct edge objects with distinct stores" % field,
             V.forall_idx2(ie.val, ie.val, lambda i, j, a, b: z3.And(a.t != b.t, sel(st, "edge_store", a.t) != sel(st, "edge_store", b.t)),
                           "edges-distinct", strict_lt=True)),
            ("A-edges.%s: supported edge classes" % field, V.forall_idx(ie.val, lambda i, e: edge_class_ok(st, e.t), "edge-classes"))]


def selection_ready(d, nedges):
    """state of a selection-policy field after reset(): constant index in range, FIRST_AVAILABLE, generator, callable"""
    return z3.Or(z3.And(z3.Or(d.tag == V.T_INT, d.tag == V.T_BOOL), 0 <= d.num, d.num < z3.ToReal(nedges)),
                 z3.And(d.tag == V.T_STR, d.s == sc("FIRST_AVAILABLE")), d.tag == V.T_GEN, d.tag == V.T_FUNC)


def mk_reset(lib, cls, sides, extra_none=()):
    """reset(): validates the selection policies (C20: out-of-range constant index -> error; C15: named policies become
    generators) and the delay parameters that must not be None"""
    def bad_index(c, side):
        d = c.old.f[side + "_edge_selection"]
        n = c.old.f[side + "_edges"].val.len
        return z3.And(z3.Or(d.tag == V.T_INT, d.tag == V.T_BOOL), z3.Not(z3.And(0 <= d.num, d.num < z3.ToReal(n))))

    def bad_kind(c, side):
        d = c.old.f[side + "_edge_selection"]
        return z3.Or(d.tag == V.T_NONE, d.tag == V.T_FLOAT, d.tag == V.T_OBJ,
                     z3.And(d.tag == V.T_STR, d.s != sc("FIRST_AVAILABLE"), d.s != sc("ROUND_ROBIN"), d.s != sc("RANDOM")))

    def none_param(c):
        return z3.Or(*[c.old.f[p].tag == V.T_NONE for p in extra_none]) if extra_none else z3.BoolVal(False)

    def ok(c):
        def int_needs_edges(s_):
            d = c.old.f[s_ + "_edge_selection"]
            return z3.Implies(z3.Or(d.tag == V.T_INT, d.tag == V.T_BOOL), z3.Not(c.old.f[s_ + "_edges"].isnone))
        return z3.And(*([z3.Not(bad_index(c, s_)) for s_ in sides] + [z3.Not(bad_kind(c, s_)) for s_ in sides]
                        + [z3.Not(none_param(c))] + [int_needs_edges(s_) for s_ in sides]))

    def post(c):
        items = []
        if cls in ("Splitter", "Combiner"):
            items.append(Def("state", VStr("SETUP_STATE"), ("C17",)))
        if cls == "Machine":
            items.append(Clause("state-rep-marks-setup", lambda c: z3.And(
                z3.Not(c.new.f["state_rep"].isnone), c.new.f["state_rep"].val.items[0].t == -1,
                c.new.f["state_rep"].val.items[1].t == -1), ("C17",)))
        for s_ in sides:
            fld = s_ + "_edge_selection"
            d0 = c.old.f[fld]
            items.append(Clause("%s-policy-ready" % s_, lambda c, fld=fld, s_=s_: selection_ready(
                c.new.f[fld], c.old.f[s_ + "_edges"].val.len), ("C15", "C20")))
            items.append(Clause("%s-policy-kept-unless-a-named-one" % s_, lambda c, fld=fld, d0=d0: z3.Implies(
                z3.Not(z3.And(d0.tag == V.T_STR, d0.s != sc("FIRST_AVAILABLE"))), V.eq(c.new.f[fld], d0)), ("C15",)))
            items.append(Clause("%s-named-policy-becomes-its-generator" % s_, lambda c, fld=fld, d0=d0: z3.Implies(
                z3.And(d0.tag == V.T_STR, d0.s != sc("FIRST_AVAILABLE")), z3.And(
                    c.new.f[fld].tag == V.T_GEN, sel(c.new, "selector_kind", c.new.f[fld].oid) == d0.s)), ("C15",)))
        return items
    con = FnContract(
        "reset", [], post=post,
        excs=[ExcCase("AssertionError", lambda c: z3.Or(*[bad_index(c, s_) for s_ in sides]), "constant-index-out-of-range",
                      unchanged=False, props=("C20", "C15"), may=True),
              ExcCase("ValueError", lambda c: z3.Or(none_param(c), *[bad_kind(c, s_) for s_ in sides]),
                      "unknown-policy-or-missing-parameter", unchanged=False, props=("C20",), may=True),
              ExcCase("TypeError", lambda c: z3.Or(*[c.old.f[s_ + "_edges"].isnone for s_ in sides]),
                      "edges-missing", unchanged=False, props=("C20",), may=True)],
        normal_requires=ok,
        modifies=tuple(s_ + "_edge_selection" for s_ in sides) + (("state_rep",) if cls == "Machine" else ()),
        heap_modifies=("selector_kind",), uses_inv=False, keeps_inv=False, props=("C15", "C20"))
    con.no_frame = True
    return con


from pyvc.state import HEAP_SCHEMA
HEAP_SCHEMA["selector_kind"] = ("str",)


def install_source(lib):
    C = lib.contracts
    C["Source"]["reset"] = mk_reset(lib, "Source", ("out",), extra_none=("inter_arrival_time",))

    # ---- Source.__init__: a non-blocking source with zero inter-arrival time is rejected (C20)
    def iat_kind_ok(d):
        return z3.Or(d.tag == V.T_FUNC, d.tag == V.T_GEN, d.tag == V.T_INT, d.tag == V.T_FLOAT, d.tag == V.T_BOOL, d.tag == V.T_NONE)

    def src_ok(c):
        iat, bl = c.args["inter_arrival_time"], c.args["blocking"]
        zero = z3.And(iat.is_num(), iat.num == 0)
        return z3.And(c.args["id"].tag == V.T_STR, z3.Not(z3.And(zero, z3.Not(V.truth(bl)))), iat_kind_ok(iat))
    C["Source"]["__init__"] = FnContract(
        "__init__", [("env", ("env",), None), ("id", ("dyn",), None), ("in_edges", ("opt", ("list", ("obj", "edge"))), NONE),
                     ("out_edges", ("opt", ("list", ("obj", "edge"))), NONE), ("item_length", ("num", "real"), Num(1)),
                     ("flow_item_type", ("str",), VStr("item")), ("inter_arrival_time", ("dyn",), V.dyn_of(Num(0))),
                     ("blocking", ("dyn",), V.dyn_of(VBool(False))), ("out_edge_selection", ("dyn",), V.dyn_of(VStr("FIRST_AVAILABLE")))],
        excs=[ExcCase("TypeError", lambda c: c.args["id"].tag != V.T_STR, "id-not-a-string", unchanged=False, props=("C20",)),
              ExcCase("ValueError", lambda c: z3.And(c.args["id"].tag == V.T_STR, z3.Not(src_ok(c))),
                      "zero-inter-arrival-for-a-non-blocking-source-or-bad-type", unchanged=False, props=("C20",))],
        normal_requires=src_ok,
        post=lambda c: [Clause("counters-start-at-zero", lambda c: z3.And(c.new.f["stats.num_item_generated"].t == 0,
                                                                          c.new.f["stats.num_item_discarded"].t == 0), ("C18",)),
                        Clause("starts-in-set-up", lambda c: c.new.f["state"].t == sc("SETUP_STATE"), ("C17",)),
                        Structural("starts-its-behaviour-process", lambda c: len(
                            [x for x in c.new.ghost.get("spawned", []) if x[0] == "behaviour"]) == 1, ("C20",))],
        uses_inv=False, keeps_inv=False, is_init=True, props=("C20", "C18", "C17"))
    C["Source"]["__init__"].no_frame = True

    # ---- Source.behaviour
    fields = ("state", "stats.last_state_change_time", TT + "SETUP_STATE", TT + "GENERATING_STATE", TT + "BLOCKED_STATE",
              "stats.num_item_generated", "stats.num_item_discarded", "out_edge_events")

    def head(ex, st, mode):
        oe = st.f["out_edges"]
        out = [("out-edges-present", z3.And(z3.Not(oe.isnone), oe.val.len >= 1)),
               ("state-known", z3.Or(*[st.f["state"].t == sc(x) for x in ("SETUP_STATE", "GENERATING_STATE", "BLOCKED_STATE")])),
               ("policy-ready", selection_ready(st.f["out_edge_selection"], oe.val.len)),
               ("inter-arrival-time-given", st.f["inter_arrival_time"].tag != V.T_NONE)]
        out += edges_assumptions(st, "out_edges")
        # C17: the source's per-state totals add up to the time of the last state change (the clock starts with the first
        # round); every write to a total outside update_state has to keep this
        last = st.f["stats.last_state_change_time"]
        tot = sum(st.f[TT + k].t for k in ("SETUP_STATE", "GENERATING_STATE", "BLOCKED_STATE"))
        out += [("I-acc.states-sum-to-last-change", z3.Implies(z3.Not(last.isnone), tot == last.val.t), ("C17",)),
                ("I-acc.clock-not-started-means-nothing-charged", z3.Implies(last.isnone, z3.And(tot == 0, st.now == 0)), ("C17",)),
                ("I-acc.nonneg", z3.And(*[st.f[TT + k].t >= 0 for k in ("SETUP_STATE", "GENERATING_STATE", "BLOCKED_STATE")]), ("C17",)),
                ("I-acc.last-change-in-the-past", z3.Implies(z3.Not(last.isnone), last.val.t <= st.now), ("C17",))]
        return out

    def back(ex, head_f, st):
        created = st.ghost.get("created", [])
        out = []
        blocking = st.f["blocking"].t
        dgen = st.f["stats.num_item_generated"].t - head_f["stats.num_item_generated"].t
        ddis = st.f["stats.num_item_discarded"].t - head_f["stats.num_item_discarded"].t
        if not created:
            out.append(("nothing-generated-nothing-counted", z3.And(dgen == 0, ddis == 0)))
            out.append(("nothing-pushed", z3.BoolVal(len(st.ghost.get("puts", [])) == 0)))
            return out
        if len(created) != 1:
            return [("one-item-per-round", z3.BoolVal(False))]
        it = created[0]
        puts = put_count(st, it)
        allputs = st.ghost.get("puts", [])
        out.append(("generated-counter-incremented-once", dgen == 1))
        # C03: the item is pushed exactly once, or dropped and counted - never both, never neither
        # (C20: a round that ends with its item neither handed over nor dropped lets a source with zero inter-arrival
        #  time create items for ever in one instant: the hand-over is what makes a full out-edge stop the loop)
        out.append(("item-pushed-once-or-discarded-and-counted", z3.And(puts + ddis == 1, puts >= 0, ddis >= 0),
                    ("C03", "C09", "C20")))
        out.append(("nothing-else-pushed", z3.BoolVal(all(True for p in allputs)) if True else None))
        out.append(("only-the-new-item-is-pushed", z3.And(*[p[0] == it for p in allputs]) if allputs else z3.BoolVal(True)))
        # C09
        out.append(("blocking-source-never-discards", z3.Implies(blocking, ddis == 0)))
        waits = [w for w in st.ghost.get("waits", []) if w[2] != "VTimeout" and w[1] is not None]
        ws = [w[1] for w in waits]
        out.append(("non-blocking-source-never-waits-with-a-finished-item",
                    z3.Implies(z3.Not(blocking), z3.Not(z3.Or(*ws)) if ws else z3.BoolVal(True))))
        # C18
        if allputs:
            out.append(("creation-stamp-set-when-pushed", z3.Implies(puts == 1, z3.Not(
                z3.Select(st.heap_arr("timestamp_creation?none"), it)))))
        return out
    beh = FnContract(
        "behaviour", [], is_generator=True, uses_inv=False, keeps_inv=False,
        entry_assume=lambda st, args: [("A-edges", cl) for nm, cl in edges_assumptions(st, "out_edges")] + [
            ("state-known", z3.Or(*[st.f["state"].t == sc(x) for x in ("SETUP_STATE", "GENERATING_STATE", "BLOCKED_STATE")])),
            ("A-start: the node is created at time 0 with all totals at 0 and the accounting clock not started", z3.And(
                st.now == 0, st.f["stats.last_state_change_time"].isnone,
                *[st.f[TT + k].t == 0 for k in ("SETUP_STATE", "GENERATING_STATE", "BLOCKED_STATE")]))],
        excs=[ExcCase("AssertionError", lambda c: z3.BoolVal(True), "start-up-or-user-value-rejected", unchanged=False,
                      props=("C20",), may=True),
              ExcCase("TypeError", lambda c: z3.BoolVal(True), "user-value-not-a-number", unchanged=False, props=("C20",), may=True),
              ExcCase("IndexError", lambda c: z3.BoolVal(True), "user-index-out-of-range", unchanged=False, props=("C20", "C15"), may=True),
              ExcCase("ValueError", lambda c: z3.BoolVal(True), "start-up-rejected", unchanged=False, props=("C20",), may=True)],
        props=("C03", "C09", "C10", "C15", "C17", "C18", "C20"))
    beh.has_normal_exit = False
    beh.no_frame = True
    beh.nshards = 8
    beh.loops = {0: ProcLoop(lib, "Source", fields, back=back, head=head, props=("C03", "C09", "C10", "C18"),
                             heaps=("length", "flow_item_type", "selector_kind")),
                 1: CancelLoop(lambda st: None, keep=lambda st: [st.loc["chosen_put_event"].t]),
                 2: ScanLoop("out_edges")}
    C["Source"]["behaviour"] = beh


class ScanLoop:
    """`for edge in self.out_edges: if edge.can_put(): <remember edge>; break`: the edges scanned so far could not
    accept an item (so the one found is the lowest-index edge able to serve: C15, and a discard happens only when
    no permitted edge has room: C09)."""
    variant = None
    props = ("C09", "C15")

    def __init__(self, field):
        self.field = field

    def havoc(self, ex, st, node, ordinal):
        tag = "lh%s" % _n()
        st.loc["__i%d" % ordinal] = Num(z3.Int(tag + ".i"))
        logic.REG.index_consts.add(tag + ".i")
        for n in ast.walk(node):
            if isinstance(n, ast.Name) and isinstance(n.ctx, ast.Store) and n.id == getattr(node.target, "id", None):
                st.loc[n.id] = None
        self.ordinal = ordinal

    def inv(self, ex, entry, st, mode):
        import re
        ordinal = sorted((k for k in st.loc if re.match(r"__i\d+$", k)), key=lambda k: int(k[3:]))[-1]
        i = st.loc[ordinal].t
        lst = ex.deref(st.loc["__it" + ordinal[3:]], st)
        if isinstance(lst, VOpt):
            lst = lst.val
        fn = oracle(st, PUT)
        quiet = all(len(st.ghost.get(k, [])) == len(entry.ghost.get(k, [])) for k in ("puts", "gets", "tokens", "waits", "spawned"))
        return [("scan-has-no-effect", z3.BoolVal(quiet), ("C03", "C10", "C09")),
                ("index-range", z3.And(0 <= i, i <= lst.len)),
                ("edges-scanned-so-far-are-full", Forall(1, lambda j: z3.Implies(
                    z3.And(0 <= j, j < i), z3.Not(fn(store_of_edge(st, lst.at(j).t)))), [lst.len], "scan"))]
