"""__init__ contracts of Splitter, Combiner and Sink, and the policy clauses of Machine/Source.__init__.

The constructors matter to the properties because they fix the configuration the processes later read:
  * C15: the selection policies are recorded exactly as given (an integer 0 is the fixed edge 0, not "no policy");
  * C17: accounting starts from zero with no state change recorded;
  * C18: counters start from zero;
  * C08: one worker slot per unit of work capacity (Splitter/Combiner: exactly 1);
  * C20: a bad id / set-up time / processing delay is rejected before the behaviour process is started.
"""
import z3
from pyvc import values as V
from pyvc.contract import FnContract, Clause, ExcCase, Structural
from pyvc.values import Num, VBool, VStr, NONE
from contracts.nodes_proc import sel, sc
from contracts.nodes_sl import TT

EDGES = ("opt", ("list", ("obj", "edge")))


def delay_kind_ok(d):
    return z3.Or(d.tag == V.T_FUNC, d.tag == V.T_GEN, d.tag == V.T_INT, d.tag == V.T_FLOAT, d.tag == V.T_BOOL,
                 d.tag == V.T_NONE)


def policy_clauses(names):
    def mk(nm):
        return Clause("%s-recorded-as-given" % nm.replace("_", "-"),
                      lambda c: V.same_dyn(c.new.f[nm], c.args[nm]), ("C15",))
    return [mk(nm) for nm in names]


def install(lib):
    C = lib.contracts

    def ok(c):
        return z3.And(c.args["id"].tag == V.T_STR, c.args["node_setup_time"].is_num(),
                      delay_kind_ok(c.args["processing_delay"]))

    def common_post(cls, policies):
        def post(c):
            out = [
                Clause("counters-start-at-zero", lambda c: z3.And(c.new.f["stats.num_item_processed"].t == 0,
                                                                  c.new.f["stats.num_item_discarded"].t == 0), ("C18",)),
                Clause("accounting-starts-at-zero", lambda c: z3.And(
                    *[c.new.f[TT + k].t == 0 for k in lib.profile(cls)["states"]],
                    # the accounting clock starts at construction, so that the set-up period is charged to SETUP_STATE
                    # by the first update_state and a finalisation during set-up works (property C17)
                    z3.Not(c.new.f["stats.last_state_change_time"].isnone),
                    c.new.f["stats.last_state_change_time"].val.t == c.old.now, c.new.f["num_workers"].t == 0,
                    c.new.f["worker_thread_list"].len == 0, c.new.f["state"].t == sc("SETUP_STATE"),
                    c.new.f["time_per_work_occupancy"].len == 2), ("C17",)),
                Clause("one-worker-slot", lambda c: z3.And(
                    c.new.f["work_capacity"].t == 1,
                    sel(c.new, "res_capacity", c.new.f["worker_thread"].t) == 1,
                    sel(c.new, "res_users", c.new.f["worker_thread"].t) == 0), ("C08",)),
                Clause("blocking-recorded-as-given", lambda c: c.new.f["blocking"].t == V.truth(c.args["blocking"]),
                       ("C15", "C10")),
                Clause("processing-delay-recorded-as-given",
                       lambda c: V.same_dyn(c.new.f["processing_delay"], c.args["processing_delay"]), ("C08",)),
                Structural("starts-its-behaviour-process", lambda c: len(
                    [x for x in c.new.ghost.get("spawned", []) if x[0] == "behaviour"]) == 1, ("C20",))]
            return out + policy_clauses(policies)
        return post

    excs = lambda: [
        ExcCase("TypeError", lambda c: c.args["id"].tag != V.T_STR, "id-not-a-string", unchanged=False, props=("C20",)),
        ExcCase("ValueError", lambda c: z3.And(c.args["id"].tag == V.T_STR, z3.Not(ok(c))),
                "setup-time-or-processing-delay-of-a-wrong-type", unchanged=False, props=("C20",))]

    sp = FnContract(
        "__init__", [("env", ("env",), None), ("id", ("dyn",), None), ("in_edges", EDGES, NONE), ("out_edges", EDGES, NONE),
                     ("node_setup_time", ("dyn",), V.dyn_of(Num(0))), ("processing_delay", ("dyn",), V.dyn_of(Num(0))),
                     ("blocking", ("dyn",), V.dyn_of(VBool(True))), ("mode", ("str",), VStr("UNPACK")),
                     ("split_quantity", ("dyn",), V.dyn_of(NONE)),
                     ("in_edge_selection", ("dyn",), V.dyn_of(VStr("FIRST_AVAILABLE"))),
                     ("out_edge_selection", ("dyn",), V.dyn_of(VStr("FIRST_AVAILABLE")))],
        excs=excs(), normal_requires=ok,
        post=lambda c: common_post("Splitter", ("in_edge_selection", "out_edge_selection"))(c) + [
            Clause("mode-recorded-as-given", lambda c: c.new.f["mode"].t == c.args["mode"].t, ("C18",))],
        uses_inv=False, keeps_inv=False, is_init=True, props=("C20", "C17", "C18", "C08", "C15", "C10"))
    sp.no_frame = True
    C["Splitter"]["__init__"] = sp

    cb = FnContract(
        "__init__", [("env", ("env",), None), ("id", ("dyn",), None), ("in_edges", EDGES, NONE), ("out_edges", EDGES, NONE),
                     ("node_setup_time", ("dyn",), V.dyn_of(Num(0))),
                     ("target_quantity_of_each_item", ("list", ("num", "int")), None),
                     ("processing_delay", ("dyn",), V.dyn_of(Num(0))), ("blocking", ("dyn",), V.dyn_of(VBool(True))),
                     ("out_edge_selection", ("dyn",), V.dyn_of(VStr("FIRST_AVAILABLE")))],
        excs=excs(), normal_requires=ok,
        post=lambda c: common_post("Combiner", ("out_edge_selection",))(c) + V_list_same(
            "recipe-recorded-as-given", lambda c: c.new.f["target_quantity_of_each_item"],
            lambda c: c.args["target_quantity_of_each_item"], ("C18",)),
        uses_inv=False, keeps_inv=False, is_init=True, props=("C20", "C17", "C18", "C08", "C15", "C10"))
    cb.no_frame = True
    C["Combiner"]["__init__"] = cb

    sk = FnContract(
        "__init__", [("env", ("env",), None), ("id", ("dyn",), None), ("in_edges", EDGES, NONE),
                     ("node_setup_time", ("dyn",), V.dyn_of(Num(0)))],
        excs=[ExcCase("TypeError", lambda c: c.args["id"].tag != V.T_STR, "id-not-a-string", unchanged=False, props=("C20",)),
              ExcCase("ValueError", lambda c: z3.And(c.args["id"].tag == V.T_STR, z3.Not(c.args["node_setup_time"].is_num())),
                      "setup-time-not-a-number", unchanged=False, props=("C20",))],
        normal_requires=lambda c: z3.And(c.args["id"].tag == V.T_STR, c.args["node_setup_time"].is_num()),
        post=lambda c: [
            Clause("counters-start-at-zero", lambda c: z3.And(c.new.f["stats.num_item_received"].t == 0,
                                                              c.new.f["stats.total_cycle_time"].t == 0), ("C18",)),
            Clause("accounting-starts-at-zero", lambda c: z3.And(
                c.new.f[TT + "COLLECTING_STATE"].t == 0, c.new.f["state"].t == sc("COLLECTING_STATE"),
                z3.Not(c.new.f["stats.last_state_change_time"].isnone),
                c.new.f["stats.last_state_change_time"].val.t == 0), ("C17",)),
            Clause("has-no-out-edges", lambda c: c.new.f["out_edges"].isnone, ("C20",)),
            Structural("starts-its-behaviour-process", lambda c: len(
                [x for x in c.new.ghost.get("spawned", []) if x[0] == "behaviour"]) == 1, ("C20",))],
        uses_inv=False, keeps_inv=False, is_init=True, props=("C20", "C17", "C18"))
    sk.no_frame = True
    C["Sink"]["__init__"] = sk

    # Machine / Source: the policies are stored as given as well
    for cls, names in (("Machine", ("in_edge_selection", "out_edge_selection")), ("Source", ("out_edge_selection",))):
        con = C[cls]["__init__"]
        old_post = con.post
        con.post = (lambda op, nn: lambda c: list(op(c)) + policy_clauses(nn) + [
            Clause("blocking-recorded-as-given", lambda c: c.new.f["blocking"].t == V.truth(c.args["blocking"]),
                   ("C15", "C10"))])(old_post, names)
        con.props = tuple(sorted(set(con.props) | {"C15", "C10"}))


def V_list_same(name, new_of, arg_of, props):
    def cl(c):
        a, b = new_of(c), arg_of(c)
        return z3.And(a.len == b.len)
    def cl2(c):
        a, b = new_of(c), arg_of(c)
        return V.forall_idx(b, lambda i, x: a.at(i).t == x.t, "recipe-same")
    return [Clause(name + ".len", cl, props), Clause(name, cl2, props)]
