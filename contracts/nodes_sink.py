"""contracts.nodes_sink -- Sink.behaviour and the shared loop specifications of the process bodies"""
import ast
import z3
from pyvc import values as V
from pyvc import logic
from pyvc.logic import Forall, Exists
from pyvc.contract import FnContract, Def, Clause, ExcCase, Structural, _fresh_like
from pyvc.values import Num, VObj, VBool, VStr, VOpaque, NONE, SList, Unsupported, VDyn, VOpt
from contracts.nodes_proc import sel, sc, tokens_consumed_clauses, put_count, PUT, GET

TT = "stats.total_time_spent_in_states."


def _n():
    return logic.fresh("n").decl().name().split("!")[1]


class ProcLoop:
    """`while True` of a node process.  At the head the process holds nothing: every token created during the
    previous iteration has been used or cancelled (C10) and every item taken in hand has been disposed of (C03).
    `fields`: node fields the body may change; `back`: extra obligations at the back edge, given (head, state)."""
    variant = None

    def __init__(self, lib, cls, fields, back=None, head=None, props=("C03", "C10"), heaps=(), assume_only=None,
                 keep_now=False):
        self.lib, self.cls, self.fields, self.back, self.head, self.props, self.heaps = lib, cls, fields, back, head, props, heaps
        self.assume_only = assume_only      # standing assumptions about the configuration (not re-proved)

    def havoc(self, ex, st, node, ordinal):
        tag = "lh%s" % _n()
        for f in self.fields:
            if f in st.f:
                st.f[f] = _fresh_like(st.f[f], "%s.%s" % (tag, f))
        for h in ("triggered", "tok_consumed", "tok_kind", "requesting_process", "resourcename", "tok_bound",
                  "timestamp_creation", "timestamp_node_entry", "timestamp_node_exit", "res_users") + tuple(self.heaps):
            st.heap_arr(h)
            st.havoc_heap(h, tag)
        st.now = z3.Real(tag + ".now")
        nid = z3.Int(tag + ".next_id")
        st.pc.append(nid >= 0)
        st.next_id = nid
        for n in ast.walk(node):
            if isinstance(n, ast.Name) and isinstance(n.ctx, ast.Store):
                cur = st.loc.get(n.id)
                if isinstance(cur, V.VNone):
                    # bound to None before the loop and assigned inside it: at the head of a later round it may hold
                    # what an earlier round stored (a value "None or an edge"); any other kind of value is not guessed
                    carried = _loop_carried_none(ex, node, n.id, tag)
                    if carried is not None:
                        st.loc[n.id] = carried
                        if isinstance(carried, VDyn):
                            st.assume(carried.well_formed())
                    continue
                if isinstance(cur, V.Value) and not isinstance(cur, (SList,)):
                    try:
                        st.loc[n.id] = _fresh_like(cur, "%s.%s" % (tag, n.id))   # bound before the loop: some value
                        continue
                    except Unsupported:
                        pass
                st.loc[n.id] = None
        for k in ("tokens", "puts", "gets", "waits", "consults", "spawned", "packed", "slots", "requests", "created"):
            st.ghost[k] = []
        st.ghost.pop("can_fact", None)
        st.ghost["epoch"] = 0

    def inv(self, ex, entry, st, mode):
        out = [("time-nonneg", st.now >= 0)]
        for nm, cl in self.lib.validity(self.cls, st, ex.ctx.con):
            out.append((nm, cl))
        for nm, cl, props in self.lib.invariant(self.cls, st, side=mode):
            out.append((nm, cl, props))
        if self.head:
            out += self.head(ex, st, mode)
        if mode == "assume":
            if self.assume_only:
                out += self.assume_only(st)
            st.ghost["head"] = dict(st.f)
            st.ghost["head_now"] = st.now
            return out
        if entry is st:
            return out          # loop entry: nothing was created yet
        out += tokens_consumed_clauses(st)
        if self.back:
            out += self.back(ex, st.ghost.get("head", {}), st)
        return out


def _loop_carried_none(ex, loop, name, tag):
    """value at the loop head of a local that is None before the loop: None if every assignment in the loop stores None,
    an optional edge if the loop stores a variable that iterates over self.in_edges / self.out_edges; otherwise the
    unit is not supported (no guessing)"""
    rhs = []
    for n in ast.walk(loop):
        if isinstance(n, ast.Assign) and any(isinstance(t, ast.Name) and t.id == name for t in n.targets):
            rhs.append(n.value)
        elif isinstance(n, (ast.AugAssign, ast.For, ast.With, ast.NamedExpr)):
            tg = getattr(n, "target", None)
            if isinstance(tg, ast.Name) and tg.id == name:
                raise Unsupported("loop-carried local %s (None before the loop) is rebound by %s" % (name, type(n).__name__))
    rhs = [r for r in rhs if not (isinstance(r, ast.Constant) and r.value is None)]
    if not rhs:
        return None                      # stays None
    for r in rhs:
        ok = False
        if isinstance(r, ast.Name):
            for f in ast.walk(ex.ctx.fnode):
                if (isinstance(f, ast.For) and isinstance(f.target, ast.Name) and f.target.id == r.id
                        and isinstance(f.iter, ast.Attribute) and isinstance(f.iter.value, ast.Name) and f.iter.value.id == "self"
                        and f.iter.attr in ("in_edges", "out_edges")):
                    ok = True
        if not ok:
            # (values of different kinds stored on different branches -- an index here, an edge there -- are not modelled)
            raise Unsupported("loop-carried local %s is None before the loop and gets values of other / several kinds inside it" % name)
    return VOpt(z3.Bool("%s.%s.isnone" % (tag, name)), VObj(z3.Int("%s.%s" % (tag, name)), "edge"))


class CancelLoop:
    """`for event in <tokens>: [if event is not chosen:] event.resourcename.reserve_*_cancel(event)`:
    the tokens before the loop index (other than the chosen one) are consumed, the others are untouched."""
    variant = None
    # (C08: a reservation left behind on an out-edge later takes a free place that a finished item then cannot get)
    props = ("C10", "C06", "C08")

    def __init__(self, chosen_from, keep=None):
        self.chosen_from = chosen_from     # function(state) -> token that the loop body skips, or None
        self.keep = keep                   # function(state) -> tokens outside the iterated list that stay untouched

    def havoc(self, ex, st, node, ordinal):
        tag = "lh%s" % _n()
        st.heap_arr("tok_consumed")
        self.before = st.h["tok_consumed"]
        st.havoc_heap("tok_consumed", tag)
        st.loc["__i%d" % ordinal] = Num(z3.Int(tag + ".i"))
        logic.REG.index_consts.add(tag + ".i")
        for n in ast.walk(node):
            if isinstance(n, ast.Name) and isinstance(n.ctx, ast.Store):
                st.loc[n.id] = None
        st.ghost["epoch"] = st.ghost.get("epoch", 0) + 1

    def inv(self, ex, entry, st, mode):
        import re
        ordinal = sorted((k for k in st.loc if re.match(r"__i\d+$", k)), key=lambda k: int(k[3:]))[-1]
        i = st.loc[ordinal].t
        lst = ex.deref(st.loc["__it" + ordinal[3:]], st)
        chosen = self.chosen_from(st)
        c0 = entry.heap_arr("tok_consumed")
        c1 = st.heap_arr("tok_consumed")

        def is_chosen(t):
            return z3.BoolVal(False) if chosen is None else t == chosen
        out = [("index-range", z3.And(0 <= i, i <= lst.len)),
               ("cancelled-so-far", Forall(1, lambda j: z3.Implies(z3.And(0 <= j, j < lst.len), z3.Select(c1, lst.at(j).t) == z3.If(
                   z3.And(j < i, z3.Not(is_chosen(lst.at(j).t))), True, z3.Select(c0, lst.at(j).t))), [lst.len], "cancel-loop")),
               ]
        if chosen is not None:
            out.append(("skipped-token-untouched", z3.Select(c1, chosen) == z3.Select(c0, chosen)))
        if self.keep:
            for k, t in enumerate(self.keep(st)):
                out.append(("kept-token-%d-untouched" % k, z3.Select(c1, t) == z3.Select(c0, t)))
        return out


def Forall_not_member(lst, t):
    # membership of an identity in a token family whose identities are base..base+n-1 (possibly with one removed):
    # expressed through the family's identity range recorded on the list value
    rng = getattr(lst, "id_range", None)
    if rng is None:
        return z3.BoolVal(False)
    lo, hi = rng
    return z3.Or(t < lo, t >= hi)


def install(lib):
    C = lib.contracts

    # Node.update_state as inherited by Sink (symbolic dictionary key = current state)
    def us_post(c):
        o, n = c.old, c.new
        last = o.f["stats.last_state_change_time"]
        ct = c.args["current_time"].t
        return [Def("stats.last_state_change_time", VOpt(z3.BoolVal(False), Num(ct)), ("C17",)),
                Clause("state-set", lambda c: n.f["state"].t == c.args["new_state"].t, ("C17",)),
                Clause("charges-elapsed-to-the-state-left", lambda c: n.f[TT + "COLLECTING_STATE"].t == z3.If(
                    z3.And(z3.Not(last.isnone), o.f["state"].t == sc("COLLECTING_STATE")),
                    o.f[TT + "COLLECTING_STATE"].t + (ct - last.val.t), o.f[TT + "COLLECTING_STATE"].t), ("C17",))]
    C["Sink"]["update_state"] = FnContract(
        "update_state", [("new_state", ("str",), None), ("current_time", ("num", "real"), None)], post=us_post,
        pre=lambda st, args: [("state-known", st.f["state"].t == sc("COLLECTING_STATE"))],
        modifies=(TT + "COLLECTING_STATE", "state", "stats.last_state_change_time"), uses_inv=False, keeps_inv=False,
        props=("C17",))
    C["Sink"]["update_state"].source = ("nodes/node.py", "Node")
    C["Sink"]["reset"] = FnContract("reset", [], post=lambda c: [Def("state", VStr("COLLECTING_STATE"), ("C17",))],
                                    modifies=("state",), uses_inv=False, keeps_inv=False, props=("C17",))

    # ---- Sink.behaviour
    def back(ex, head, st):
        gets = st.ghost.get("gets", [])
        out = [("takes-exactly-one-item-per-round", z3.BoolVal(len(gets) == 1))]
        if len(gets) == 1:
            item = gets[0][0]
            cr = st.heap_get(VObj(item, "item"), "timestamp_creation")
            out.append(("received-counter-incremented-once",
                        st.f["stats.num_item_received"].t == head["stats.num_item_received"].t + 1))
            out.append(("cycle-time-is-reception-minus-creation",
                        st.f["stats.total_cycle_time"].t == head["stats.total_cycle_time"].t + (st.now - cr.val.t)))
        return out

    def chosen_of(st):
        ce = st.f.get("chosen_event")
        return ce.val.t if isinstance(ce, VOpt) else None
    beh = FnContract(
        "behaviour", [], is_generator=True, uses_inv=False, keeps_inv=False,
        entry_assume=lambda st, args: sink_assumptions(st),
        excs=[ExcCase("AssertionError", lambda c: z3.Or(c.old.f["in_edges"].isnone, c.old.f["in_edges"].val.len < 1,
                                                        z3.Not(c.old.f["out_edges"].isnone)),
                      "sink-without-in-edge-or-with-out-edge", unchanged=False, props=("C20",))],
        props=("C03", "C10", "C18", "C20", "C06"))
    beh.has_normal_exit = False
    beh.no_frame = True
    beh.loops = {0: ProcLoop(lib, "Sink", ("state", "stats.last_state_change_time", TT + "COLLECTING_STATE",
                                           "stats.num_item_received", "stats.total_cycle_time", "in_edge_events",
                                           "chosen_event", "item_in_process"), back=back,
                             head=lambda ex, st, mode: [("state-known", st.f["state"].t == sc("COLLECTING_STATE")),
                                                        ("edges", z3.And(z3.Not(st.f["in_edges"].isnone), st.f["in_edges"].val.len >= 1))]
                             + [(nm, cl) for nm, cl in sink_assumptions(st)],
                             props=("C03", "C10", "C18")),
                 1: CancelLoop(lambda st: None, keep=lambda st: [st.f["chosen_event"].val.t])}
    beh.rely = lambda st0, st1: [("A-items: an item offered by an edge carries its creation stamp",
                                  Forall(1, lambda t: z3.Not(z3.Select(st1.heap_arr("timestamp_creation?none"),
                                                                       z3.Select(st1.heap_arr("tok_bound"), t))), [st1.next_id], "stamped"))]
    C["Sink"]["behaviour"] = beh


def sink_assumptions(st):
    out = []
    ie = st.f["in_edges"]
    out.append(("A-edges: distinct edge objects with distinct stores",
                V.forall_idx2(ie.val, ie.val, lambda i, j, a, b: z3.And(a.t != b.t, sel(st, "edge_store", a.t) != sel(st, "edge_store", b.t)),
                              "edges-distinct", strict_lt=True)))
    out.append(("A-edges: supported edge classes", V.forall_idx(ie.val, lambda i, e: z3.Or(
        sel(st, "edge_cls", e.t) == sc("Buffer"), sel(st, "edge_cls", e.t) == sc("Fleet"),
        sel(st, "edge_cls", e.t) == sc("ConveyorBelt")), "edge-classes")))
    return out
